"""Check driver: builds obligations for one property from /repo's working tree, discharges them, replays
counterexamples on the real code, writes evidence and prints VIOLATION / KNOWN-FINDING lines."""
import os, sys, json, time, traceback, hashlib, re, multiprocessing
import z3
from . import prog as progmod
from .core import Engine, State, Unsupported, Oblig, short
from .contracts import load_contracts, ContractEval
from .vsl import SpecError
from .verify import verify_function, World
from . import solve, globals as globmod

ROOT = os.path.dirname(os.path.dirname(os.path.abspath(__file__)))
REPO = os.environ.get("VERIF_REPO", "/repo")
REPLAY_CAP = int(os.environ.get("VERIF_REPLAY_CAP", "4"))


class Ctx:
    def __init__(self, repo=REPO, tier="quick", seed=0):
        self.repo = repo
        self.tier = tier
        self.seed = seed
        self.t0 = time.time()
        self.prog = progmod.export(repo)
        self.contracts, self.defs, self.contract_files = load_contracts(repo, os.path.join(ROOT, "spec"))
        self.mutable = globmod.mutable_globals(self.prog)
        self.gheap, self.gotype = globmod.init_heap(self.prog)
        self.orphans = [c.short for c in self.contracts.values() if c.fn not in self.prog.funcs]
        self.timeout_ms = 20000 if tier == "quick" else 120000

    def engine(self):
        e = Engine(self.prog)
        ce = ContractEval(e, self.contracts, self.defs)
        e.ev = ce
        e.contracts = self.contracts
        from .externals import DEFAULT_ABSTRACT
        e.abstract = dict(DEFAULT_ABSTRACT)
        try:
            from props.ppu_common import ext_read_handler
            e.abstract["ext:read"] = ext_read_handler
        except ImportError:
            pass
        return e, ce

    def seed_globals(self, st, include_mutable=False):
        """package-level variables that are never written outside init keep their init value"""
        for oid, v in self.gheap.items():
            if oid.startswith("g:") and (oid[2:] in self.mutable) and not include_mutable:
                continue
            st.heap[oid] = v
        st.otype.update(self.gotype)


class Task:
    """one unit of work run in a worker process: produces obligations (+ covers) and solves them"""

    def __init__(self, name, fn=None, kind="function", keep=None, **kw):
        self.name = name
        self.fn = fn
        self.kind = kind
        self.kw = kw
        self.keep = keep

    def build(self, ctx):
        """returns FuncResult-like object with .obligs, .covers"""
        eng, ce = ctx.engine()
        kw = dict(self.kw)
        setup = kw.pop("setup", None)
        if not ctx.prog.has_func(self.fn):
            # the helper no longer exists (renamed, merged into its caller, removed): its contract is orphaned. The
            # property-bearing obligations are anchored on the callers, which now inline whatever replaced it.
            lem = Lem()
            lem.notes.append("orphaned: function %s not found in the exported SSA; its callers are verified by inlining" % self.fn)
            return lem

        def setup2(w, st, args):
            ctx.seed_globals(st)
            if setup is not None:
                return setup(w, st, args)
        return verify_function(eng, ce, self.fn, setup=setup2, **kw)


class LemmaTask(Task):
    """obligations produced by a python function  f(ctx, eng, ce) -> (list[Oblig], list[cover])"""

    def __init__(self, name, func, functions=()):
        Task.__init__(self, name, None, "lemma")
        self.func = func
        self.functions = list(functions)

    def build(self, ctx):
        eng, ce = ctx.engine()
        r = self.func(ctx, eng, ce)
        return r


class Lem:
    def __init__(self):
        self.obligs = []
        self.covers = []
        self.stats = {}
        self.world = None
        self.time = 0
        self.notes = []
        self.fn = None

    def add(self, name, viol, kind="lemma", state=None, info=None, world=None, pre=None, args=None):
        ob = Oblig(name, kind, viol, state, "", info)
        ob.world = world
        ob.pre = pre
        ob.args = args
        ob.func = None
        self.obligs.append(ob)
        return ob


class TaskTimeout(BaseException):
    """raised by SIGALRM inside a worker; BaseException so that no `except Exception` in the engine swallows it"""


_CTX = None
_TASKS = None
_PROP = None


def _run_task(i):
    ctx, task, prop = _CTX, _TASKS[i], _PROP
    t0 = time.time()
    out = {"task": task.name, "results": [], "covers": [], "error": None, "functions": [], "stats": {}, "notes": []}
    # wall-clock budget for generating one task's obligations: a changed function can make the symbolic execution
    # blow up (e.g. a new 160-iteration loop without invariant that the engine unrolls through an inlined decoder);
    # the task then ends with an error and its baseline obligations are reported as no longer discharged
    import signal
    budget = int(os.environ.get("VERIF_TASK_TIMEOUT", "0")) or (900 if ctx.tier == "quick" else 3600)

    def _alarm(signum, frame):
        raise TaskTimeout("obligation generation exceeded %d s" % budget)
    try:
        signal.signal(signal.SIGALRM, _alarm)
        signal.alarm(budget)
    except (ValueError, OSError):
        pass
    try:
        try:
            r = task.build(ctx)
        finally:
            try:
                signal.alarm(0)
            except (ValueError, OSError):
                pass
    except TaskTimeout as ex:
        out["error"] = "Timeout: %s" % ex
        return out
    except (Unsupported, SpecError) as ex:
        out["error"] = "%s: %s" % (type(ex).__name__, ex)
        out["trace"] = traceback.format_exc()
        return out
    except Exception as ex:
        out["error"] = "%s: %s" % (type(ex).__name__, ex)
        out["trace"] = traceback.format_exc()
        return out
    out["gen_s"] = round(time.time() - t0, 3)
    st = getattr(r, "stats", None) or {}
    out["stats"] = {k: (sorted(v) if isinstance(v, set) else v) for k, v in st.items()}
    out["notes"] = getattr(r, "notes", [])
    if getattr(r, "fn", None):
        out["functions"].append(r.fn)
    out["functions"].extend(getattr(task, "functions", []))
    for (nm, f) in r.covers:
        t1 = time.time()
        s, _ = solve.check_sat(f, ctx.timeout_ms)
        out["covers"].append({"name": prop + "/" + nm, "result": s, "time_s": round(time.time() - t1, 3)})
    from . import replay
    nreplayed = 0
    for ob in r.obligs:
        if getattr(task, "keep", None) is not None and not task.keep(ob.name) and not ob.name.endswith("#ensures:typeinv"):
            continue
        res = solve.solve_one(ob, ctx.timeout_ms, external=True, all_solvers=(ctx.tier == "thorough"))
        d = res.asdict()
        d["obligation"] = prop + "/" + ob.name
        d["expect_fail"] = bool((ob.info or {}).get("canary"))
        if (ob.info or {}).get("detail"):
            d["detail"] = str(ob.info["detail"])[:3000]
        if getattr(res, "agree", None):
            d["agree"] = res.agree
        if res.status == "sat" and not d["expect_fail"] and nreplayed >= REPLAY_CAP:
            # a change that breaks hundreds of obligations at once: the first few are replayed, the rest only reported
            d["replay"] = {"status": "not-replayed", "reason": "replay budget of %d per task used up" % REPLAY_CAP}
        elif res.status == "sat" and not d["expect_fail"]:
            nreplayed += 1
            try:
                d["replay"] = replay.replay(ctx, prop, ob, res)
            except Exception as ex:
                d["replay"] = {"status": "error", "error": "%s: %s" % (type(ex).__name__, ex),
                               "trace": traceback.format_exc()[-1500:]}
        elif res.status == "unknown":
            d["detail"] = res.detail
        out["results"].append(d)
    if ctx.tier == "thorough" and task.kind == "function" and not os.environ.get("VERIF_NESTED"):
        from . import cosim
        if cosim.selected(task.name, len(_TASKS)):
            try:
                out["cosim"] = cosim.cosim_task(ctx, prop, task, seed=ctx.seed)
            except Exception as ex:
                out["cosim"] = {"task": task.name, "samples": 0, "agree": 0, "not_comparable": 0, "disagree": [],
                                "skipped": "cosim error %s: %s" % (type(ex).__name__, str(ex)[:200])}
    out["wall_s"] = round(time.time() - t0, 3)
    return out


def load_known():
    p = os.path.join(ROOT, "known_findings.json")
    if not os.path.exists(p):
        return []
    with open(p) as f:
        return json.load(f).get("findings", [])


def run_property(prop, build_tasks, level="proof", tier="quick", seed=0, assumptions=(), trusted=(), extra_cov=None):
    global _CTX, _TASKS, _PROP
    t0 = time.time()
    # VERIF_EVIDENCE_DIR: the must-fail corpus and seeded-change runs write their evidence to a scratch directory,
    # so that the committed evidence always comes from a run on /repo's unchanged tree
    evid_path = os.path.join(os.environ.get("VERIF_EVIDENCE_DIR") or os.path.join(ROOT, "evidence"), prop + ".json")
    try:
        ctx = Ctx(REPO, tier, seed)
    except (progmod.ExportError, SpecError, Unsupported) as ex:
        # the tree does not load / a contract file does not parse: the check itself cannot run
        msg = "%s: %s" % (type(ex).__name__, ex)
        print("CHECK-ERROR property=%s %s" % (prop, msg.replace("\n", " ")[:2000]))
        rp = os.path.join(ROOT, "replays", prop)
        os.makedirs(rp, exist_ok=True)
        path = os.path.join(rp, "load-error.json")
        with open(path, "w") as f:
            json.dump({"property": prop, "obligation": prop + "/load", "error": msg}, f, indent=1)
        print("VIOLATION property=%s replay=%s no-failing-input-found" % (prop, path))
        write_evidence(evid_path, prop, tier, seed, level, {"obligations": 1, "discharged": 0,
                       "checker_cmd": "./check %s --tier %s" % (prop, tier), "trusted_base": list(trusted),
                       "samples": [{"obligation": prop + "/load", "result": "error", "detail": msg[:500]}]},
                       list(assumptions), time.time() - t0, 1)
        return 1
    tasks = build_tasks(ctx)
    # inductive-invariant closure (engine/closure.py): the property names the components whose invariants its lemmas assume
    inv_pkgs = getattr(build_tasks, "invariant_packages", ())
    inv_added = []
    if inv_pkgs and not os.environ.get("VERIF_ONLY") and not os.environ.get("VERIF_NO_CLOSURE"):
        from . import closure as closuremod
        extra_inv = closuremod.invariant_tasks(ctx, tasks, set(inv_pkgs), ())
        inv_added = [t.name for t in extra_inv]
        tasks = list(tasks) + extra_inv
    _CTX, _TASKS, _PROP = ctx, tasks, prop
    nproc = int(os.environ.get("VERIF_PROCS", "0")) or min(16, max(1, len(tasks)))
    if nproc > 1 and len(tasks) > 1:
        mpctx = multiprocessing.get_context("fork")
        with mpctx.Pool(nproc) as pool:
            outs = pool.map(_run_task, range(len(tasks)), chunksize=1)
    else:
        outs = [_run_task(i) for i in range(len(tasks))]
    # closure: the callee contracts this property's tasks relied on are discharged in this same run (engine/closure.py)
    closure_note = None
    if not os.environ.get("VERIF_ONLY") and not os.environ.get("VERIF_NO_CLOSURE"):
        from . import closure as closuremod
        done, added, unknown_all = set(), [], []
        batch_outs, all_tasks = outs, list(tasks)
        for _round in range(4):
            new, unknown = closuremod.missing_tasks(ctx, all_tasks, batch_outs, done)
            unknown_all += unknown
            if not new:
                break
            _TASKS = new
            if len(new) > 1:
                mpctx = multiprocessing.get_context("fork")
                with mpctx.Pool(min(16, len(new))) as pool:
                    batch_outs = pool.map(_run_task, range(len(new)), chunksize=1)
            else:
                batch_outs = [_run_task(0)]
            outs = outs + batch_outs
            all_tasks += new
            added += [t.name for t in new]
        _TASKS = tasks
        closure_note = "closure: %d callee-contract tasks added (%s)%s" % (len(added), ", ".join(added[:60]),
                       ("; used callee contracts with no function task in any property: %s" % sorted(set(unknown_all))) if unknown_all else "")
        if inv_added:
            closure_note += "; invariant-preservation tasks added for packages %s: %d" % (sorted(inv_pkgs), len(inv_added))
        if outs:
            outs[0].setdefault("notes", []).append(closure_note)
    extra2 = extra_cov
    if tier == "thorough":
        from . import thorough
        tinfo = thorough.extras(ctx, prop, outs, corpus=not os.environ.get("VERIF_NESTED") and not os.environ.get("VERIF_ONLY"))

        for d in (tinfo.get("cosimulation") or {}).get("disagreements", []):
            # the engine's semantics differs from the compiled code on a concrete input: nothing this check proves is to be believed
            outs.append({"task": "cosim:" + d.get("task", "?"), "results": [], "covers": [], "functions": [], "stats": {}, "notes": [],
                         "error": "ENGINE-DISAGREEMENT in co-simulation: %s" % json.dumps(d, default=str)[:600]})

        cs_ = tinfo.get("cosimulation") or {}
        if cs_.get("wrong_prediction_canaries", 0) != cs_.get("wrong_prediction_canaries_caught", 0):
            outs.append({"task": "cosim:canary", "results": [], "covers": [], "functions": [], "stats": {}, "notes": [],
                         "error": "co-simulation canary: a deliberately wrong prediction was not reported as a disagreement (%d of %d caught)"
                                  % (cs_.get("wrong_prediction_canaries_caught", 0), cs_.get("wrong_prediction_canaries", 0))})

        def extra2(c, o, _t=tinfo, _e=extra_cov):
            d = dict(_e(c, o)) if _e else {}
            d.update(_t)
            return d
    return report(ctx, prop, outs, level, tier, seed, assumptions, trusted, t0, evid_path, extra2)


def write_evidence(path, prop, tier, seed, level, coverage, assumptions, wall, violations):
    os.makedirs(os.path.dirname(path), exist_ok=True)
    ev = {"property_id": prop, "tier": tier, "seed": int(seed), "level": level, "coverage": coverage,
          "assumptions": assumptions, "wall_s": round(wall, 2), "violations": violations}
    tmp = path + ".tmp"
    with open(tmp, "w") as f:
        json.dump(ev, f, indent=1, sort_keys=True)
    os.replace(tmp, path)


def report(ctx, prop, outs, level, tier, seed, assumptions, trusted, t0, evid_path, extra_cov=None):
    known = [k for k in load_known() if k.get("property") == prop]
    baseline = {}
    bp = os.path.join(ROOT, "baseline_obligations.json")
    if os.path.exists(bp):
        with open(bp) as f:
            baseline = json.load(f).get(prop, {})
    results, covers, errors = [], [], []
    functions, inlined, modular_calls, abstracted = set(), set(), set(), set()
    notes = []
    for o in outs:
        if o["error"]:
            errors.append(o)
        results.extend(o["results"])
        covers.extend(o["covers"])
        functions.update(o["functions"])
        stt = o.get("stats") or {}
        inlined.update(stt.get("inlined", []))
        modular_calls.update(stt.get("modular_calls", []))
        abstracted.update(stt.get("abstracted", []))
        notes.extend(o.get("notes", []))
    violations = []
    known_hit = []
    broken = []
    nobl = len(results)
    ndis = 0
    solver_time = {}
    canaries_ok = 0
    for r in results:
        solver_time[r["backend"]] = round(solver_time.get(r["backend"], 0) + r["time_s"], 3)
        name = r["obligation"]
        if r["expect_fail"]:
            if r["result"] == "sat":
                canaries_ok += 1
            else:
                broken.append("canary %s did not fail (%s): the check is vacuous" % (name, r["result"]))
            continue
        if r["result"] == "unsat":
            ndis += 1
            continue
        kf = None
        for k in known:
            if k.get("status", "open") == "open" and re.fullmatch(k["obligation"], name):
                kf = k
        if r["result"] == "sat":
            rp = r.get("replay") or {}
            if kf is not None and replay_matches(kf, rp):
                known_hit.append((kf, r))
                continue
            violations.append(r)
        else:
            # undecided
            if kf is not None:
                known_hit.append((kf, r))
                continue
            violations.append(r)
    for e in errors:
        broken.append("task %s: %s" % (e["task"], e["error"]))
        if os.environ.get("VERIF_DEBUG"):
            print(e.get("trace", ""))
    for c in covers:
        if c["result"] != "sat":
            broken.append("cover %s is %s: precondition is contradictory or undecided (vacuous proof)" % (c["name"], c["result"]))
    # baseline: obligations that used to exist must still exist
    have = {r["obligation"] for r in results}
    missing = [n for n in baseline.get("obligations", []) if n not in have] if not os.environ.get("VERIF_ONLY") else []
    try:
        # the list tools/mkbaseline.py reads: only from runs on /repo itself (corpus runs on scratch copies set VERIF_REPO
        # and VERIF_EVIDENCE_DIR and must not overwrite it)
        if not os.environ.get("VERIF_ONLY") and REPO == "/repo" and not os.environ.get("VERIF_EVIDENCE_DIR"):
            os.makedirs(os.path.join(ROOT, "cache"), exist_ok=True)
            with open(os.path.join(ROOT, "cache", prop + ".obligations.json"), "w") as f:
                json.dump(sorted(have), f)
    except OSError:
        pass
    rc = 0
    rdir = os.path.join(ROOT, "replays", prop)
    os.makedirs(rdir, exist_ok=True)
    lines = []
    for r in violations:
        fn = re.sub(r"[^A-Za-z0-9_.#@-]+", "_", r["obligation"])[:180] + ".json"
        path = os.path.join(rdir, fn)
        rp = r.get("replay") or {}
        with open(path, "w") as f:
            json.dump({"property": prop, "obligation": r["obligation"], "solver": r["backend"], "result": r["result"],
                       "detail": r.get("detail", ""), "replay": rp}, f, indent=1, default=str)
        if r["result"] == "sat" and rp.get("status") == "confirmed":
            lines.append("VIOLATION property=%s replay=%s" % (prop, path))
        elif r["result"] == "sat" and rp.get("status") == "engine-disagreement":
            broken.append("ENGINE-DISAGREEMENT on %s: symbolic post-state differs from the real code (%s)" % (r["obligation"], path))
        else:
            lines.append("VIOLATION property=%s replay=%s obligation=%s no-failing-input-found" % (prop, path, r["obligation"]))
            lines[-1] = "VIOLATION property=%s replay=%s no-failing-input-found" % (prop, path)
        rc = 1
    for m in missing:
        path = os.path.join(rdir, re.sub(r"[^A-Za-z0-9_.#@-]+", "_", m)[:180] + ".missing.json")
        with open(path, "w") as f:
            json.dump({"property": prop, "obligation": m, "result": "missing",
                       "detail": "obligation discharged on the baseline tree is no longer generated (function or contract removed)"}, f, indent=1)
        lines.append("VIOLATION property=%s replay=%s no-failing-input-found" % (prop, path))
        rc = 1
    for (kf, r) in known_hit:
        print("KNOWN-FINDING: property=%s %s [%s]" % (prop, kf["summary"], r["obligation"]))
    for l in lines:
        print(l)
    for b in broken:
        print("CHECK-BROKEN property=%s %s" % (prop, b))
    if broken and rc == 0:
        rc = 2
    samples = [r for r in results if not r["expect_fail"]][:12]
    slow = sorted(results, key=lambda r: -r["time_s"])[:5]
    cov = {
        "obligations": nobl - sum(1 for r in results if r["expect_fail"]) - len(known_hit),
        "discharged": ndis,
        "checker_cmd": "./check %s --tier %s" % (prop, tier),
        "trusted_base": list(trusted),
        "samples": [{k: v for k, v in s.items() if k in ("obligation", "result", "backend", "time_s", "kind")} for s in samples],
        "slowest": [{k: v for k, v in s.items() if k in ("obligation", "result", "backend", "time_s")} for s in slow],
        "functions_under_contract": sorted(functions),
        "inlined": sorted(inlined - functions),
        "callee_contracts_used": sorted(modular_calls),
        "abstracted_calls": sorted(abstracted),
        "orphaned_contracts": ctx.orphans,
        "covers_sat": sum(1 for c in covers if c["result"] == "sat"),
        "covers": len(covers),
        "canaries_failed_as_expected": canaries_ok,
        "solver_time_s": solver_time,
        "known_findings": [{"id": k["id"], "obligation": r["obligation"], "result": r["result"],
                            "replay": (r.get("replay") or {}).get("status")} for (k, r) in known_hit],
        "excluded_obligations": len(known_hit),
        "export_s": round(getattr(ctx.prog, "export_s", 0), 2),
        "contract_files": [os.path.relpath(p, ctx.repo) for p in ctx.contract_files],
        "bounded": [],
        "notes": notes,
    }
    if extra_cov:
        cov.update(extra_cov(ctx, outs))
    if cov["obligations"] < 1:
        cov["obligations"] = max(cov["obligations"], 0)
    ass = list(assumptions)
    for (k, r) in known_hit:
        ass.append("known finding %s excluded from 'discharged': %s" % (k["id"], k["summary"]))
    write_evidence(evid_path, prop, tier, seed, level, cov, ass, time.time() - t0, len(violations) + len(missing))
    print("%s: %d obligations, %d discharged, %d known findings, %d violations, %d covers, %.1fs" % (
        prop, cov["obligations"], ndis, len(known_hit), len(violations) + len(missing), len(covers), time.time() - t0))
    return rc


def replay_matches(kf, rp):
    """a known finding only covers counterexamples inside its recorded region"""
    reg = kf.get("region")
    if not reg:
        return True
    inputs = (rp or {}).get("inputs") or {}
    try:
        return bool(eval(reg, {"__builtins__": {}}, {"v": inputs, "get": lambda k, d=None: inputs.get(k, d)}))
    except Exception:
        return False
