"""Thorough tier, T2: co-simulation sampling. The engine's semantics of go/ssa is in the trusted base of every proof; here it
is tested against the Go compiler: for a function under contract the body is executed symbolically with every callee inlined,
a model of a return path's condition is chosen with randomised inputs, the real function is run on that input (go test
-overlay, state injected by reflection) and every scalar of the post-state and the results predicted by the engine are
compared with what the real code produced. A difference is an ENGINE-DISAGREEMENT (reported as a broken check, never as a
property violation); agreement is evidence, not proof, and is reported as such."""
import random, time, zlib
import z3
from .core import Oblig, Ptr, SliceV, Closure, Iface, StructV, ArrV, ZArr, TupleV, is_z3
from .verify import verify_function
from . import replay as replaymod


def consts_of(vals, limit=200000):
    out, seen, work = {}, set(), []

    def push(v):
        if is_z3(v):
            work.append(v)
        elif isinstance(v, (StructV, ArrV, TupleV)):
            for x in v.items:
                push(x)
        elif isinstance(v, SliceV):
            for x in (v.off, v.len, v.cap):
                if is_z3(x):
                    work.append(x)
        elif isinstance(v, Iface):
            push(v.v)
    for v in vals:
        push(v)
    n = 0
    while work and n < limit:
        t = work.pop()
        i = t.get_id()
        if i in seen:
            continue
        seen.add(i)
        n += 1
        if z3.is_const(t) and t.decl().kind() == z3.Z3_OP_UNINTERPRETED:
            out[t.decl().name()] = t
        elif not z3.is_quantifier(t):
            work.extend(t.children())
    return list(out.values())


def random_model(pc, consts, rng):
    s = z3.Solver()
    s.set("timeout", 5000)
    s.set("random_seed", rng.randrange(1 << 30))
    s.add(pc)
    if s.check() != z3.sat:
        return None
    pick = [c for c in consts if z3.is_bv(c) or z3.is_bool(c)]
    rng.shuffle(pick)
    for c in pick[:32]:
        if z3.is_bool(c):
            val = z3.BoolVal(rng.random() < 0.5)
        else:
            n = c.size()
            r = rng.random()
            x = rng.getrandbits(n) if r < 0.6 else (rng.choice([0, 1, (1 << n) - 1, 1 << (n - 1), (1 << (n - 1)) - 1]) if r < 0.8 else rng.getrandbits(min(n, 4)))
            val = z3.BitVecVal(x, n)
        s.push()
        s.add(c == val)
        if s.check() != z3.sat:
            s.pop()
    if s.check() != z3.sat:
        return None
    return s.model()


class _Res:
    def __init__(self, model):
        self.model = model


def selected(name, ntasks, cap=40):
    stride = max(1, ntasks // cap)
    return zlib.crc32(name.encode()) % stride == 0


def cosim_task(ctx, prop, task, nsamples=2, seed=0, budget_s=120):
    out = {"task": task.name, "samples": 0, "agree": 0, "not_comparable": 0, "disagree": [], "skipped": None}
    if task.kind != "function" or task.fn is None or not ctx.prog.has_func(task.fn):
        out["skipped"] = "not a function task"
        return out
    kw = dict(task.kw)
    if kw.get("setup") is not None:
        out["skipped"] = "task installs abstractions (ghost handlers): the engine run is not the real code"
        return out
    kw.pop("setup", None)
    kw.pop("modular", None)
    eng, ce = ctx.engine()
    t0 = time.time()

    def setup2(w, st, args):
        ctx.seed_globals(st)
    try:
        res = verify_function(eng, ce, task.fn, setup=setup2, modular=set(), check_frame=False, **kw)
    except Exception as ex:
        out["skipped"] = "inlined run failed: %s: %s" % (type(ex).__name__, str(ex)[:200])
        return out
    ab = sorted(x for x in (res.stats.get("abstracted") or []) if not x.startswith("ext:read"))
    if ab:
        out["skipped"] = "abstracted calls on the path: %s" % ab[:4]
        return out
    rng = random.Random((zlib.crc32(task.name.encode()) << 8) ^ int(seed))
    consts = consts_of(list(res.pre.heap.values()) + list(res.args))
    f = ctx.prog.func(task.fn)
    outs = list(res.outs)
    rng.shuffle(outs)
    for (s, v) in outs[:3]:
        for k in range(nsamples):
            if time.time() - t0 > budget_s:
                return out
            m = random_model(s.pcond(), consts, rng)
            if m is None:
                continue
            ob = Oblig("cosim:" + task.name, "ensures", z3.BoolVal(True), s, "", {"result": v})
            ob.world, ob.pre, ob.args, ob.func, ob.fvs = res.world, res.pre, res.args, f.short, ()
            try:
                rep = replaymod.replay(ctx, prop, ob, _Res(m))
            except Exception as ex:
                rep = {"status": "error", "error": "%s: %s" % (type(ex).__name__, ex)}
            out["samples"] += 1
            stt = rep.get("status")
            if stt == "confirmed" and not rep.get("panic") and is_z3(v) and not out.get("canary_done"):
                # vacuity guard for the comparison itself: the same sample with a deliberately wrong prediction of the result
                # (one bit flipped) must be reported as a disagreement
                out["canary_done"] = True
                wrong = z3.Not(v) if z3.is_bool(v) else v ^ 1
                ob2 = Oblig("cosim-canary:" + task.name, "ensures", z3.BoolVal(True), s, "", {"result": wrong})
                ob2.world, ob2.pre, ob2.args, ob2.func, ob2.fvs = res.world, res.pre, res.args, f.short, ()
                try:
                    rep2 = replaymod.replay(ctx, prop, ob2, _Res(m))
                except Exception as ex:
                    rep2 = {"status": "error"}
                out["canaries"] = out.get("canaries", 0) + 1
                if rep2.get("status") == "engine-disagreement":
                    out["canaries_caught"] = out.get("canaries_caught", 0) + 1
            if stt == "confirmed" and not rep.get("panic"):
                out["agree"] += 1
            elif stt == "engine-disagreement" or rep.get("panic"):
                out["disagree"].append({"inputs": {k: x for k, x in list((rep.get("inputs") or {}).items())[:40] if not isinstance(x, dict)},
                                        "diffs": rep.get("diffs"), "panic": rep.get("panic")})
            else:
                out["not_comparable"] += 1
                out.setdefault("reasons", [])
                if len(out["reasons"]) < 3:
                    out["reasons"].append(str(rep.get("reason") or rep.get("error") or rep.get("log") or "")[:200])
    return out
