"""Assumed contracts of functions outside the verified code (listed in every evidence file that uses them)."""
import z3
from .core import (Ptr, SliceV, Iface, NILIFACE, TupleV, StructV, ArrV, ZArr, Opaque, Unsupported, concrete_int, idx_add, idx_term)


def writer_write(eng, st, args, site):
    """io.Writer.Write(p): ghost event (length, bytes...); assumed to consume all bytes and return a nil error"""
    recv, sl = args[0], args[1]
    n = concrete_int(sl.len)
    if n is None or n > 16:
        raise Unsupported("io.Writer.Write with symbolic/large length")
    data = [eng.load(st, Ptr(sl.obj, sl.path + (idx_add(sl.off, i),))) for i in range(n)]
    st.trace = st.trace + (("io.Write", z3.BitVecVal(n, 64)) + tuple(data),)
    return [(st, TupleV([z3.BitVecVal(n, 64), NILIFACE]))]


DEFAULT_ABSTRACT = {
    "invoke:Write:io.Writer": writer_write,
}

ASSUMED = {
    "invoke:Write:io.Writer": "io.Writer.Write(p) is an opaque environment call: it is recorded as one ghost output event carrying p and is assumed to return a nil error",
}


def image_rect(eng, st, args, site):
    x0, y0, x1, y1 = args
    return [(st, StructV([StructV([x0, y0]), StructV([x1, y1])]))]


def image_newrgba(eng, st, args, site):
    tid = eng.p.named.get("image.RGBA")
    val = eng.zero(tid)
    # Pix, Stride, Rect
    fields = eng.p.struct_fields(tid)
    items = list(val.items)
    for i, f in enumerate(fields):
        if f["name"] == "Rect":
            items[i] = args[0]
    oid = eng.new_obj(st, StructV(items), tid, "frame")
    return [(st, Ptr(oid, ()))]


def image_setrgba(eng, st, args, site):
    recv, x, y, c = args
    comps = tuple(c.items) if isinstance(c, StructV) else (c,)
    st.trace = st.trace + (("px", x, y) + comps,)
    return [(st, None)]


DEFAULT_ABSTRACT.update({"image.Rect": image_rect, "image.NewRGBA": image_newrgba, "(*image.RGBA).SetRGBA": image_setrgba})
ASSUMED.update({
    "image.Rect": "image.Rect(x0,y0,x1,y1) with x0<=x1, y0<=y1 returns that rectangle",
    "image.NewRGBA": "image.NewRGBA allocates a fresh image of the given bounds",
    "(*image.RGBA).SetRGBA": "(*image.RGBA).SetRGBA(x,y,c) sets pixel (x,y) of the frame and nothing else; recorded as one ghost pixel event",
})
