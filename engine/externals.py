"""Assumed contracts of functions outside the verified code (listed in every evidence file that uses them)."""
import z3
from .core import (Ptr, SliceV, Iface, NILIFACE, TupleV, StructV, ArrV, ZArr, Opaque, Unsupported, concrete_int, idx_add, idx_term)


def writer_write(eng, st, args, site):
    """io.Writer.Write(p): ghost event (length, bytes...); assumed to consume all bytes and return a nil error"""
    recv, sl = args[0], args[1]
    n = concrete_int(sl.len)
    if n is None or n > 16:
        raise Unsupported("io.Writer.Write with symbolic/large length")
    data = [eng.load(st, Ptr(sl.obj, sl.path + (idx_add(sl.off, i),))) for i in range(n)]
    st.trace = st.trace + (("io.Write", z3.BitVecVal(n, 64)) + tuple(data),)
    return [(st, TupleV([z3.BitVecVal(n, 64), NILIFACE]))]


DEFAULT_ABSTRACT = {
    "invoke:Write:io.Writer": writer_write,
}

ASSUMED = {
    "invoke:Write:io.Writer": "io.Writer.Write(p) is an opaque environment call: it is recorded as one ghost output event carrying p and is assumed to return a nil error",
}
