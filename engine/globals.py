"""Package-level variables: initial values (by executing the real package init functions symbolically) and the
scan for variables that are written outside init (those are never assumed to keep their initial value)."""
import z3
from .core import Engine, State, Opaque, Unsupported
from .prog import short


def has_ref(prog, tid, seen=None):
    """does a value of this type carry a reference through which memory could be written?"""
    seen = seen or set()
    if tid in seen:
        return False
    seen.add(tid)
    u = prog.under(tid)
    k = u["k"]
    if k in ("ptr", "slice", "map", "chan", "func", "iface"):
        return True
    if k == "struct":
        return any(has_ref(prog, f["t"], seen) for f in u["fields"])
    if k == "array":
        return has_ref(prog, u["elem"], seen)
    return False


def init_only_functions(prog):
    """functions that can only run during package initialisation: pkg.init, init#N and unexported plain functions
    whose every static caller is init-only and that are never used as a value"""
    callers = {}
    used_as_value = set()
    for f in prog.funcs.values():
        for b in f.blocks:
            for ins in b["instrs"]:
                if ins["op"] in ("Call", "Defer", "Go"):
                    c = ins["call"]
                    if c.get("static"):
                        callers.setdefault(c["static"], set()).add(f.name)
                    for a in c["args"]:
                        if a and a.get("k") == "func":
                            used_as_value.add(a["n"])
                elif ins["op"] == "MakeClosure":
                    callers.setdefault(ins["fn"], set()).add(f.name)
                else:
                    for key in ("x", "val", "y"):
                        v = ins.get(key)
                        if isinstance(v, dict) and v.get("k") == "func":
                            used_as_value.add(v["n"])
    io = {f.name for f in prog.funcs.values() if f.short.endswith(".init") or ".init#" in f.short}
    changed = True
    while changed:
        changed = False
        for f in prog.funcs.values():
            if f.name in io or f.name in used_as_value or not f.blocks:
                continue
            nm = f.d["short"]
            if f.d.get("hasrecv") or nm[:1].isupper():
                continue
            cs = callers.get(f.name)
            if cs and all(c in io for c in cs):
                io.add(f.name)
                changed = True
    return io


def mutable_globals(prog):
    """global short names that may be stored to outside their package's init (conservative taint scan)"""
    mut = {}
    io = init_only_functions(prog)
    for f in prog.funcs.values():
        if not f.blocks or f.name in io:
            continue
        taint = {}
        changed = True
        instrs = [i for b in f.blocks for i in b["instrs"]]

        def tv(v):
            if v is None:
                return None
            if v["k"] == "global":
                return short(v["n"])
            if v["k"] == "reg":
                return taint.get(v["n"])
            return None
        while changed:
            changed = False
            for ins in instrs:
                op = ins["op"]
                n = ins.get("n")
                src = None
                if op in ("FieldAddr", "IndexAddr", "Slice", "ChangeType", "Convert", "Field", "Index"):
                    src = tv(ins["x"])
                elif op == "UnOp" and ins["uop"] == "*":
                    src = tv(ins["x"])
                    # loading a scalar out of a global ends the taint
                    if not has_ref(prog, ins["t"]):
                        src = None
                elif op == "Phi":
                    for e in ins["edges"]:
                        src = src or tv(e)
                if src is not None and n is not None and taint.get(n) != src:
                    taint[n] = src
                    changed = True
        for ins in instrs:
            op = ins["op"]
            if op == "Store":
                g = tv(ins["addr"])
                if g is not None:
                    mut.setdefault(g, set()).add(f.short)
            elif op in ("Call", "Defer", "Go"):
                c = ins["call"]
                for a in c["args"]:
                    g = tv(a)
                    if g is not None:
                        callee = c.get("static") or ""
                        fnv = c.get("fn") or {}
                        if fnv.get("k") == "builtin" and fnv.get("n") in ("len", "cap"):
                            continue
                        mut.setdefault(g, set()).add(f.short + " (passed to %s)" % short(callee or "?"))
            elif op == "MakeClosure":
                for bnd in ins["bindings"]:
                    g = tv(bnd)
                    if g is not None:
                        mut.setdefault(g, set()).add(f.short + " (captured)")
            elif op in ("MakeInterface", "Send", "Return"):
                vals = [ins.get("x")] if op != "Return" else ins["results"]
                for v in vals:
                    g = tv(v)
                    if g is not None:
                        mut.setdefault(g, set()).add(f.short + " (escapes)")
    return mut


def init_heap(prog):
    """execute every in-scope package init on an empty state (lenient: unknown externals are opaque);
    returns (heap, otype) of the package-level variables and everything they reach"""
    eng = Engine(prog)
    eng.lenient = True
    eng.check_feas = False
    st = State()
    for pkg in prog.d["pkgs"]:
        name = pkg + ".init"
        if name not in prog.funcs:
            continue
        try:
            outs = eng.call_function(st, name, [])
        except Unsupported as ex:
            raise
        if len(outs) != 1:
            raise Unsupported("package init of %s forked (%d outcomes)" % (pkg, len(outs)))
        st = outs[0][0]
    return st.heap, st.otype
