"""Package-level variables: initial values (by executing the real package init functions symbolically) and the
scan for variables that are written outside init (those are never assumed to keep their initial value)."""
import z3
from .core import Engine, State, Opaque, Unsupported
from .prog import short


def mutable_globals(prog):
    """global short names that may be stored to outside their package's init (conservative taint scan)"""
    mut = {}
    for f in prog.funcs.values():
        if not f.blocks or f.short.endswith(".init"):
            continue
        taint = {}
        changed = True
        instrs = [i for b in f.blocks for i in b["instrs"]]

        def tv(v):
            if v is None:
                return None
            if v["k"] == "global":
                return short(v["n"])
            if v["k"] == "reg":
                return taint.get(v["n"])
            return None
        while changed:
            changed = False
            for ins in instrs:
                op = ins["op"]
                n = ins.get("n")
                src = None
                if op in ("FieldAddr", "IndexAddr", "Slice", "ChangeType", "Convert", "Field", "Index"):
                    src = tv(ins["x"])
                elif op == "UnOp" and ins["uop"] == "*":
                    src = tv(ins["x"])
                    # loading a scalar out of a global ends the taint
                    k = prog.kind(ins["t"])
                    if k in ("basic",):
                        src = None
                elif op == "Phi":
                    for e in ins["edges"]:
                        src = src or tv(e)
                if src is not None and n is not None and taint.get(n) != src:
                    taint[n] = src
                    changed = True
        for ins in instrs:
            op = ins["op"]
            if op == "Store":
                g = tv(ins["addr"])
                if g is not None:
                    mut.setdefault(g, set()).add(f.short)
            elif op in ("Call", "Defer", "Go"):
                c = ins["call"]
                for a in c["args"]:
                    g = tv(a)
                    if g is not None:
                        callee = c.get("static") or ""
                        fnv = c.get("fn") or {}
                        if fnv.get("k") == "builtin" and fnv.get("n") in ("len", "cap"):
                            continue
                        mut.setdefault(g, set()).add(f.short + " (passed to %s)" % short(callee or "?"))
            elif op == "MakeClosure":
                for bnd in ins["bindings"]:
                    g = tv(bnd)
                    if g is not None:
                        mut.setdefault(g, set()).add(f.short + " (captured)")
            elif op in ("MakeInterface", "Send", "Return"):
                vals = [ins.get("x")] if op != "Return" else ins["results"]
                for v in vals:
                    g = tv(v)
                    if g is not None:
                        mut.setdefault(g, set()).add(f.short + " (escapes)")
    return mut


def init_heap(prog):
    """execute every in-scope package init on an empty state (lenient: unknown externals are opaque);
    returns (heap, otype) of the package-level variables and everything they reach"""
    eng = Engine(prog)
    eng.lenient = True
    eng.check_feas = False
    st = State()
    for pkg in prog.d["pkgs"]:
        name = pkg + ".init"
        if name not in prog.funcs:
            continue
        try:
            outs = eng.call_function(st, name, [])
        except Unsupported as ex:
            raise
        if len(outs) != 1:
            raise Unsupported("package init of %s forked (%d outcomes)" % (pkg, len(outs)))
        st = outs[0][0]
    return st.heap, st.otype
