"""Replay of solver models on the real code: an in-package Go test is generated, injected with `go test -overlay`
(nothing is written into /repo), the pre-state of the model is installed with reflect/unsafe, the real function is
called, and the real post-state is compared with the engine's symbolic post-state evaluated under the model."""
import os, json, subprocess, tempfile, shutil, re, time
import z3
from .core import (Ptr, SliceV, Closure, Iface, StructV, ArrV, ZArr, TupleV, ChanV, StrV, Opaque, is_z3, concrete_int)
from .prog import short, MOD

GOENV = dict(GOFLAGS="-mod=mod", GOPROXY="off", GOSUMDB="off", GOTOOLCHAIN="local")

HELPERS = r'''
func vrWalk(v reflect.Value, path []interface{}) reflect.Value {
	for _, st := range path {
		for v.Kind() == reflect.Ptr || v.Kind() == reflect.Interface {
			v = v.Elem()
		}
		i := st.(int)
		switch v.Kind() {
		case reflect.Struct:
			v = v.Field(i)
		case reflect.Array, reflect.Slice:
			v = v.Index(i)
		default:
			panic(fmt.Sprintf("vrWalk: kind %v", v.Kind()))
		}
	}
	return v
}

func vrW(v reflect.Value) reflect.Value {
	return reflect.NewAt(v.Type(), unsafe.Pointer(v.UnsafeAddr())).Elem()
}

func vrSetU(o reflect.Value, path []interface{}, x uint64) {
	f := vrW(vrWalk(o, path))
	switch f.Kind() {
	case reflect.Bool:
		f.SetBool(x != 0)
	case reflect.Int, reflect.Int8, reflect.Int16, reflect.Int32, reflect.Int64:
		f.SetInt(int64(x))
	case reflect.Float32, reflect.Float64:
		f.SetFloat(float64(math.Float32frombits(uint32(x))))
	default:
		f.SetUint(x)
	}
}

func vrSetP(o reflect.Value, path []interface{}, objs map[string]reflect.Value, id string) {
	f := vrW(vrWalk(o, path))
	if id == "" {
		f.Set(reflect.Zero(f.Type()))
		return
	}
	t, ok := objs[id]
	if !ok {
		t = reflect.New(f.Type().Elem())
		objs[id] = t
	}
	f.Set(t)
}

func vrSetBytes(o reflect.Value, path []interface{}, def uint64, upd map[int]uint64) {
	f := vrW(vrWalk(o, path))
	n := f.Len()
	for i := 0; i < n; i++ {
		f.Index(i).SetUint(def)
	}
	for i, x := range upd {
		if i < n {
			f.Index(i).SetUint(x)
		}
	}
}

func vrMakeSlice(o reflect.Value, path []interface{}, n int) {
	f := vrW(vrWalk(o, path))
	f.Set(reflect.MakeSlice(f.Type(), n, n))
}

func vrDump(out map[string]interface{}, prefix string, v reflect.Value, seen map[uintptr]bool, depth int) {
	switch v.Kind() {
	case reflect.Bool:
		if v.Bool() {
			out[prefix] = 1
		} else {
			out[prefix] = 0
		}
	case reflect.Int, reflect.Int8, reflect.Int16, reflect.Int32, reflect.Int64:
		out[prefix] = uint64(v.Int())
	case reflect.Uint, reflect.Uint8, reflect.Uint16, reflect.Uint32, reflect.Uint64:
		out[prefix] = v.Uint()
	case reflect.Float32:
		out[prefix] = uint64(math.Float32bits(float32(v.Float())))
	case reflect.Struct:
		for i := 0; i < v.NumField(); i++ {
			vrDump(out, fmt.Sprintf("%s.%d", prefix, i), v.Field(i), seen, depth)
		}
	case reflect.Array, reflect.Slice:
		if v.Kind() == reflect.Slice {
			out[prefix+".len"] = v.Len()
		}
		if v.Len() > 0 && v.Index(0).Kind() == reflect.Uint8 {
			b := make([]byte, v.Len())
			for i := range b {
				b[i] = byte(v.Index(i).Uint())
			}
			out[prefix] = hex.EncodeToString(b)
			return
		}
		if v.Len() > 4096 {
			return
		}
		for i := 0; i < v.Len(); i++ {
			vrDump(out, fmt.Sprintf("%s.%d", prefix, i), v.Index(i), seen, depth)
		}
	case reflect.Ptr:
		if v.IsNil() {
			out[prefix+".nil"] = 1
		} else if depth > 0 && v.Elem().Kind() == reflect.Struct {
			vrDump(out, prefix, v.Elem(), seen, depth-1)
		}
	case reflect.Func, reflect.Chan, reflect.Interface, reflect.Map:
		if v.IsNil() {
			out[prefix+".nil"] = 1
		} else {
			out[prefix+".nil"] = 0
		}
	}
}
'''


def mval(model, v):
    """python int value of a scalar term under the model (bools -> 0/1, float32 -> IEEE bits)"""
    r = model.eval(v, model_completion=True)
    if z3.is_bool(r):
        return 1 if z3.is_true(r) else 0
    if z3.is_fp(r) or z3.is_fprm(r):
        b = model.eval(z3.fpToIEEEBV(v), model_completion=True)
        return b.as_long()
    if z3.is_bv_value(r):
        return r.as_long()
    r = z3.simplify(r)
    if z3.is_bv_value(r):
        return r.as_long()
    raise ValueError("cannot evaluate %s" % v)


def array_interp(model, term, maxn):
    """(default, {idx: value}) of a byte array term under the model, by evaluating Select for small arrays"""
    r = model.eval(term, model_completion=True)
    upd = {}
    default = None
    cur = r
    ok = True
    while True:
        if z3.is_store(cur):
            i = cur.arg(1)
            v = cur.arg(2)
            if z3.is_bv_value(i) and z3.is_bv_value(v):
                upd.setdefault(i.as_long(), v.as_long())
                cur = cur.arg(0)
                continue
            ok = False
            break
        if z3.is_const_array(cur):
            d = cur.arg(0)
            if z3.is_bv_value(d):
                default = d.as_long()
            else:
                ok = False
            break
        ok = False
        break
    if ok and default is not None:
        return default, upd
    # fallback: evaluate every element
    if maxn is None or maxn > 70000:
        raise ValueError("array model too complex")
    upd = {}
    for i in range(maxn):
        upd[i] = mval(model, z3.Select(term, z3.BitVecVal(i, 64)))
    return 0, upd


class GoGen:
    def __init__(self, ctx, pkgpath):
        self.ctx = ctx
        self.p = ctx.prog
        self.pkg = pkgpath
        self.lines = []
        self.imports = {"reflect", "unsafe", "fmt", "math", "encoding/hex", "encoding/json", "testing", "os"}
        self.objs_declared = set()

    def tyexpr(self, tid):
        """Go source expression for a type, from inside package self.pkg"""
        t = self.p.types[tid]
        k = t["k"]
        if k == "named":
            full = t["name"]
            if "." in full and "/" in full or full.count(".") >= 1:
                pk, _, nm = full.rpartition(".")
                if pk == self.pkg:
                    return nm
                if pk:
                    self.imports.add(pk)
                    return pk.rsplit("/", 1)[-1] + "." + nm
            return full
        if k == "basic":
            return t["name"]
        if k == "ptr":
            return "*" + self.tyexpr(t["elem"])
        if k == "array":
            return "[%d]%s" % (t["len"], self.tyexpr(t["elem"]))
        if k == "slice":
            return "[]" + self.tyexpr(t["elem"])
        raise ValueError("type expression for kind " + k)

    def path(self, path):
        return "[]interface{}{%s}" % ", ".join(str(x) for x in path)


def build_state(gen, model, pre, roots, world):
    """emit Go statements that build the model's pre-state; returns inputs dict (name -> value)"""
    p = gen.p
    L = gen.lines
    inputs = {}
    done = set()
    names = world.objname if world is not None else {}

    def emit_obj(oid):
        if oid in done or oid is None:
            return
        done.add(oid)
        val = pre.heap[oid]
        tid = pre.otype.get(oid)
        nm = names.get(oid, str(oid))
        emit_val('objs["%s"]' % oid, (), val, tid, nm)

    def emit_val(root, path, val, tid, nm):
        if is_z3(val):
            x = mval(model, val)
            inputs[nm] = x
            if x != 0:
                L.append("vrSetU(%s, %s, %d)" % (root, gen.path(path), x))
        elif isinstance(val, StructV):
            fields = p.struct_fields(tid)
            for i, (it, f) in enumerate(zip(val.items, fields)):
                emit_val(root, path + (i,), it, f["t"], nm + "." + f["name"])
        elif isinstance(val, ArrV):
            et = p.under(tid)["elem"]
            for i, it in enumerate(val.items):
                emit_val(root, path + (i,), it, et, "%s[%d]" % (nm, i))
        elif isinstance(val, ZArr):
            n = val.n
            d, upd = array_interp(model, val.term, n)
            inputs[nm] = {"default": d, "set": {str(k): v for k, v in sorted(upd.items())[:64]}}
            if d != 0 or upd:
                L.append("vrSetBytes(%s, %s, %d, map[int]uint64{%s})" % (
                    root, gen.path(path), d, ", ".join("%d: %d" % (k, v) for k, v in sorted(upd.items()) if (n is None or k < n))))
        elif isinstance(val, Ptr):
            if val.obj is None:
                return
            if val.path:
                raise ValueError("interior pointer in pre-state at " + nm)
            if val.obj not in done:
                L.append("vrSetP(%s, %s, objs, %s)" % (root, gen.path(path), json.dumps(val.obj)))
                emit_obj(val.obj)
            else:
                L.append("vrSetP(%s, %s, objs, %s)" % (root, gen.path(path), json.dumps(val.obj)))
        elif isinstance(val, SliceV):
            if val.obj is None:
                return
            ln = mval(model, val.len) if is_z3(val.len) else val.len
            inputs[nm + ".len"] = ln
            if ln > (1 << 22):
                raise ValueError("slice too long for replay")
            L.append("vrMakeSlice(%s, %s, %d)" % (root, gen.path(path), ln))
            back = pre.heap[val.obj]
            et = p.under(tid)["elem"]
            if isinstance(back, ZArr):
                if p.kind(et) == "array":
                    # slice of byte arrays: evaluate each page
                    elen = p.under(et)["len"]
                    for i in range(ln):
                        page = z3.Select(back.term, z3.BitVecVal(i, 64))
                        d, upd = array_interp(model, page, elen)
                        if d != 0 or upd:
                            L.append("vrSetBytes(%s, %s, %d, map[int]uint64{%s})" % (
                                root, gen.path(path + (i,)), d, ", ".join("%d: %d" % (k, v) for k, v in sorted(upd.items()) if k < elen)))
                        inputs["%s[%d]" % (nm, i)] = {"default": d, "set": {str(k): v for k, v in sorted(upd.items())[:16]}}
                else:
                    d, upd = array_interp(model, back.term, ln)
                    L.append("vrSetBytes(%s, %s, %d, map[int]uint64{%s})" % (
                        root, gen.path(path), d, ", ".join("%d: %d" % (k, v) for k, v in sorted(upd.items()) if k < ln)))
                    inputs[nm] = {"default": d, "set": {str(k): v for k, v in sorted(upd.items())[:64]}}
            elif isinstance(back, ArrV):
                for i, it in enumerate(back.items[:ln]):
                    emit_val(root, path + (i,), it, et, "%s[%d]" % (nm, i))
        elif isinstance(val, Iface) and isinstance(val.t, int) and isinstance(val.v, Ptr) and val.v.obj is not None and not val.v.path:
            # interface holding a pointer to a struct of this package: allocate it with its static type
            te = gen.tyexpr(val.t)
            if val.v.obj not in done:
                L.append("objs[%s] = reflect.New(reflect.TypeOf((%s)(nil)).Elem())" % (json.dumps(val.v.obj), te))
            L.append("vrW(vrWalk(%s, %s)).Set(objs[%s])" % (root, gen.path(path), json.dumps(val.v.obj)))
            emit_obj(val.v.obj)
        elif isinstance(val, (Closure, Iface, ChanV)):
            isnil = (isinstance(val, Closure) and val.fn is None) or (isinstance(val, Iface) and val.t is None) or \
                    (isinstance(val, ChanV) and val.id is None)
            if not isnil:
                raise ValueError("non-nil %s in pre-state at %s needs a custom replay" % (type(val).__name__, nm))
        elif isinstance(val, (Opaque, StrV)):
            pass
        else:
            raise ValueError("cannot build %r" % (val,))

    for oid in roots:
        tid = pre.otype.get(oid)
        L.append('objs[%s] = reflect.New(reflect.TypeOf((*%s)(nil)).Elem())' % (json.dumps(oid), gen.tyexpr(tid)))
    for oid in roots:
        emit_obj(oid)
    return inputs


def mentions_havoc(term, limit=4000):
    """does the term contain a symbol introduced by a modular call (havocked location / abstract result)?"""
    seen = set()
    work = [term]
    n = 0
    while work:
        t = work.pop()
        i = t.get_id()
        if i in seen:
            continue
        seen.add(i)
        n += 1
        if n > limit:
            return True
        if z3.is_const(t) and t.decl().kind() == z3.Z3_OP_UNINTERPRETED:
            nm = t.decl().name()
            if ".havoc!" in nm or ".result" in nm or nm.startswith("busbyte"):
                return True
        else:
            work.extend(t.children())
    return False


def predicted_leaves(model, post, oid, tid, p, prefix, out, val=None):
    """engine's post-state under the model as {dump-path: value}"""
    if val is None:
        val = post.heap[oid]

    def walk(v, t, pre):
        if is_z3(v):
            if mentions_havoc(v):
                return   # value left open by a callee's contract (havoc): the real callee picks one value, nothing to compare
            out[pre] = mval(model, v)
        elif isinstance(v, StructV):
            for i, (it, f) in enumerate(zip(v.items, p.struct_fields(t))):
                walk(it, f["t"], "%s.%d" % (pre, i))
        elif isinstance(v, ArrV):
            et = p.under(t)["elem"]
            for i, it in enumerate(v.items):
                walk(it, et, "%s.%d" % (pre, i))
        elif isinstance(v, ZArr):
            if v.n is not None and v.n <= 0x4000 and p.kind(v.et) == "basic":
                bs = bytearray(v.n)
                d, upd = None, None
                try:
                    d, upd = array_interp(model, v.term, v.n)
                    for i in range(v.n):
                        bs[i] = d
                    for k, x in upd.items():
                        if k < v.n:
                            bs[k] = x
                except ValueError:
                    return
                out[pre] = bytes(bs).hex()
    walk(val, tid, prefix)


def run_go_test(ctx, pkgpath, src, timeout=120):
    rel = pkgpath[len(MOD) + 1:] if pkgpath.startswith(MOD) else pkgpath
    scratch = tempfile.mkdtemp(prefix="verif-replay-", dir=os.environ.get("VERIF_SCRATCH", "/var/tmp"))
    try:
        tf = os.path.join(scratch, "replay_test.go")
        with open(tf, "w") as f:
            f.write(src)
        outp = os.path.join(scratch, "out.json")
        ov = os.path.join(scratch, "ov.json")
        with open(ov, "w") as f:
            json.dump({"Replace": {os.path.join(ctx.repo, rel, "zz_verif_replay_test.go"): tf}}, f)
        env = dict(os.environ, **GOENV)
        env["VERIF_REPLAY_OUT"] = outp
        r = subprocess.run(["go", "test", "-overlay", ov, "-vet=off", "-count=1", "-timeout", "60s", "-run", "^TestVerifReplay$", "./" + rel],
                           cwd=ctx.repo, env=env, capture_output=True, text=True, timeout=timeout)
        out = None
        if os.path.exists(outp):
            with open(outp) as f:
                out = json.load(f)
        return r.returncode, (r.stdout + r.stderr)[-3000:], out
    finally:
        shutil.rmtree(scratch, ignore_errors=True)


def go_scalar(gen, tid, x):
    b = gen.p.basic(tid)
    if b == "bool":
        return "true" if x else "false"
    w = gen.p.width(tid)
    if gen.p.signed(tid) and x >= (1 << (w - 1)):
        x -= 1 << w
    return "%s(%d)" % (gen.tyexpr(tid), x)


def replay(ctx, prop, ob, res):
    """returns a JSON-able dict with status: confirmed | engine-disagreement | unconfirmed | error"""
    info = ob.info or {}
    if callable(info.get("replay")):
        return info["replay"](ctx, prop, ob, res)
    if getattr(ob, "func", None) is None or ob.world is None or res.model is None:
        return {"status": "unconfirmed", "reason": "no generic replay for this obligation"}
    p = ctx.prog
    f = p.func(ob.func)
    model = res.model
    gen = GoGen(ctx, f.pkg)
    pre, w = ob.pre, ob.world
    # roots: pointer arguments to objects; other objects hang off them
    roots = []
    argexprs = []
    inputs = {}
    for prm, a in zip(f.params, ob.args):
        if isinstance(a, Ptr):
            if a.obj is None:
                argexprs.append("nil")
            elif a.path:
                base = 'objs[%s]' % json.dumps(a.obj)
                if a.obj not in roots:
                    roots.append(a.obj)
                steps = [mval(model, s) if is_z3(s) else s for s in a.path]
                argexprs.append("(%s)(unsafe.Pointer(vrWalk(%s, %s).UnsafeAddr()))" % (gen.tyexpr(prm["t"]), base, gen.path(steps)))
            else:
                if a.obj not in roots:
                    roots.append(a.obj)
                argexprs.append('objs[%s].Interface().(%s)' % (json.dumps(a.obj), gen.tyexpr(prm["t"])))
        elif is_z3(a):
            x = mval(model, a)
            inputs[prm["name"]] = x
            argexprs.append(go_scalar(gen, prm["t"], x))
        elif isinstance(a, Closure) and a.fn == "ext:read":
            # abstract bus function: answers with the bytes the model chose for the addresses that were read
            bus = {}
            for ev in (ob.state.trace if ob.state is not None else ()):
                if ev[0] == "dmaread":
                    bus[mval(model, ev[1])] = mval(model, ev[2])
            inputs["bus"] = {"0x%04x" % k: v for k, v in bus.items()}
            argexprs.append("func(a uint16) uint8 { return map[uint16]uint8{%s}[a] }" % ", ".join("0x%04x: 0x%02x" % kv for kv in sorted(bus.items())))
        else:
            return {"status": "unconfirmed", "reason": "argument %s of kind %s" % (prm["name"], type(a).__name__)}
    try:
        inputs.update(build_state(gen, model, pre, roots, w))
    except ValueError as ex:
        return {"status": "unconfirmed", "reason": str(ex), "inputs": inputs}
    # call expression
    nm = f.d["short"]
    if f.d.get("hasrecv"):
        call = "%s.%s(%s)" % (argexprs[0], nm, ", ".join(argexprs[1:]))
    else:
        call = "%s(%s)" % (nm, ", ".join(argexprs))
    nres = len(f.results)
    lhs = ", ".join("r%d" % i for i in range(nres))
    body = []
    body.append("objs := map[string]reflect.Value{}")
    body.extend(gen.lines)
    body.append("out := map[string]interface{}{}")
    body.append("func() {")
    body.append("\tdefer func() { if r := recover(); r != nil { out[\"panic\"] = fmt.Sprint(r) } }()")
    if nres:
        body.append("\t%s := %s" % (lhs, call))
        for i in range(nres):
            body.append('\tvrDump(out, "result%d", reflect.ValueOf(&r%d).Elem(), nil, 1)' % (i, i))
    else:
        body.append("\t" + call)
    body.append("}()")
    body.append("for id, o := range objs { vrDump(out, id, o.Elem(), nil, 0) }")
    body.append('b, _ := json.Marshal(out)')
    body.append('os.WriteFile(os.Getenv("VERIF_REPLAY_OUT"), b, 0644)')
    imps = "\n".join('\t"%s"' % i for i in sorted(gen.imports))
    src = "package %s\n\nimport (\n%s\n)\n\nvar _ = math.Pi\nvar _ = hex.EncodeToString\nvar _ unsafe.Pointer\n%s\nfunc TestVerifReplay(t *testing.T) {\n\t%s\n}\n" % (
        f.pkg.rsplit("/", 1)[-1], imps, HELPERS, "\n\t".join(body))
    rc, log, out = run_go_test(ctx, f.pkg, src)
    rep = {"inputs": inputs, "function": f.short, "go_test": src if len(src) < 20000 else src[:20000], "go_rc": rc}
    if out is None:
        rep.update(status="error", log=log)
        return rep
    rep["real_post"] = {k: v for k, v in out.items() if not (isinstance(v, str) and len(v) > 600)}
    if ob.kind in ("no-panic",) or ob.name.split("#")[-1].startswith("no-panic"):
        if "panic" in out:
            rep.update(status="confirmed", panic=out["panic"])
        else:
            rep.update(status="engine-disagreement", reason="model predicts a panic, real code did not panic")
        return rep
    if "panic" in out:
        rep.update(status="confirmed", panic=out["panic"], reason="real code panicked on the model input")
        return rep
    # compare the engine's post-state (under the model) with the real post-state
    pred = {}
    post = ob.state
    for oid in list(post.heap.keys()):
        if oid in pre.heap and post.otype.get(oid) is not None and ("%s" % oid) in {k.split(".")[0] for k in out}:
            predicted_leaves(model, post, oid, post.otype[oid], p, str(oid), pred)
    rv = (ob.info or {}).get("result")
    if is_z3(rv):
        pred["result0"] = mval(model, rv)
    elif isinstance(rv, Ptr) and rv.obj is not None and not rv.path and post.otype.get(rv.obj) is not None:
        predicted_leaves(model, post, rv.obj, post.otype[rv.obj], p, "result0", pred)
    elif isinstance(rv, TupleV):
        for i, x in enumerate(rv.items):
            if is_z3(x):
                pred["result%d" % i] = mval(model, x)
    diffs = {}
    for k, v in pred.items():
        if k in out and out[k] != v:
            diffs[k] = {"engine": v if not isinstance(v, str) else v[:64], "real": out[k] if not isinstance(out[k], str) else out[k][:64]}
    rep["compared_locations"] = len([k for k in pred if k in out])
    ext = sorted({d.name() for d in model.decls() if d.name().startswith("external.")})
    if diffs and ext:
        # the path calls a function outside the exported program (its result is an unconstrained symbol in the
        # obligation): the model's choice for that result is not what the real callee returns, so the prediction is
        # not comparable - the obligation still fails, without a failing input
        rep.update(status="unconfirmed", diffs=diffs,
                   reason="the failing path calls unmodelled external function(s) %s; their results are unconstrained in the obligation, so the model is not a concrete input" % ", ".join(e.split("!")[0] for e in ext)[:300])
    elif diffs:
        rep.update(status="engine-disagreement", diffs=diffs)
    elif rep["compared_locations"] == 0:
        rep.update(status="unconfirmed", reason="nothing to compare")
    else:
        rep.update(status="confirmed", clause=(ob.info or {}).get("clause"))
    return rep
