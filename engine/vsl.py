"""Contract / specification expression language: Go expression syntax (Pratt parser) evaluated to z3 terms
with Go typing (widths and signedness taken from the Go types of the fields mentioned)."""
import re
import z3
from .core import (Ptr, NIL, SliceV, NILSLICE, Closure, Iface, StructV, ArrV, ZArr, TupleV, ChanV, StrV, Opaque,
                   Unsupported, concrete_int, concrete_bool, to64, idx_term, idx_add, is_z3, BV64, F32, RNE)
from .prog import INT_W, SIGNED


class SpecError(Exception):
    pass


TOK = re.compile(r"""\s*(?:
    (?P<num>0[xX][0-9a-fA-F_]+|0[bB][01_]+|\d[\d_]*)|
    (?P<id>[A-Za-z_$][A-Za-z_0-9]*)|
    (?P<op><==>|==>|&\^|<<|>>|&&|\|\||==|!=|<=|>=|[-+*/%&|^<>!().,\[\]:{}])
)""", re.X)


def tokenize(s):
    out = []
    i = 0
    s = s.rstrip()
    while i < len(s):
        m = TOK.match(s, i)
        if not m or m.end() == i:
            if s[i:].strip() == "":
                break
            raise SpecError("cannot tokenize %r at %r" % (s, s[i:i + 20]))
        i = m.end()
        if m.group("num"):
            t = m.group("num").replace("_", "")
            out.append(("num", int(t, 0)))
        elif m.group("id"):
            out.append(("id", m.group("id")))
        else:
            out.append(("op", m.group("op")))
    out.append(("eof", None))
    return out


BINPREC = {"<==>": 1, "==>": 2, "||": 3, "&&": 4, "==": 5, "!=": 5, "<": 5, "<=": 5, ">": 5, ">=": 5,
           "+": 6, "-": 6, "|": 6, "^": 6, "*": 7, "/": 7, "%": 7, "<<": 7, ">>": 7, "&": 7, "&^": 7}


class Parser:
    def __init__(self, s):
        self.s = s
        self.t = tokenize(s)
        self.i = 0

    def peek(self):
        return self.t[self.i]

    def next(self):
        x = self.t[self.i]
        self.i += 1
        return x

    def expect(self, op):
        k, v = self.next()
        if k != "op" or v != op:
            raise SpecError("expected %r got %r in %r" % (op, v, self.s))

    def parse(self):
        e = self.expr(0)
        if self.peek()[0] != "eof":
            raise SpecError("trailing input %r in %r" % (self.peek(), self.s))
        return e

    def expr(self, minp):
        lhs = self.unary()
        while True:
            k, v = self.peek()
            if k != "op" or v not in BINPREC:
                break
            pr = BINPREC[v]
            if pr < minp:
                break
            self.next()
            if v in ("==>", "<==>"):
                rhs = self.expr(pr)  # right assoc
            else:
                rhs = self.expr(pr + 1)
            lhs = ("bin", v, lhs, rhs)
        return lhs

    def unary(self):
        k, v = self.peek()
        if k == "op" and v in ("!", "-", "^", "*", "&"):
            self.next()
            return ("un", v, self.unary())
        return self.postfix(self.primary())

    def primary(self):
        k, v = self.next()
        if k == "num":
            return ("num", v)
        if k == "id":
            if v == "true":
                return ("bool", True)
            if v == "false":
                return ("bool", False)
            return ("id", v)
        if k == "op" and v == "(":
            e = self.expr(0)
            self.expect(")")
            return e
        raise SpecError("unexpected token %r in %r" % (v, self.s))

    def postfix(self, e):
        while True:
            k, v = self.peek()
            if k == "op" and v == ".":
                self.next()
                k2, n = self.next()
                if k2 != "id":
                    raise SpecError("field name expected in %r" % self.s)
                e = ("sel", e, n)
            elif k == "op" and v == "[":
                self.next()
                if self.peek() == ("op", ":"):
                    lo = None
                else:
                    lo = self.expr(0)
                if self.peek() == ("op", ":"):
                    self.next()
                    hi = None if self.peek() == ("op", "]") else self.expr(0)
                    self.expect("]")
                    e = ("slice", e, lo, hi)
                else:
                    self.expect("]")
                    e = ("idx", e, lo)
            elif k == "op" and v == "(":
                self.next()
                args = []
                if self.peek() != ("op", ")"):
                    while True:
                        args.append(self.expr(0))
                        if self.peek() == ("op", ","):
                            self.next()
                            continue
                        break
                self.expect(")")
                e = ("call", e, args)
            else:
                return e


def parse(s):
    return Parser(s).parse()


# ------------------------------------------------------------------ typed values
class TV:
    """value with a type descriptor:  ('int',w,signed) | ('bool',) | ('untyped',) | ('f32',) | ('go',tid) | ('loc',)"""
    __slots__ = ("v", "ty", "lv")

    def __init__(self, v, ty, lv=None):
        self.v, self.ty, self.lv = v, ty, lv

    def __repr__(self):
        return "TV(%r,%r)" % (self.v, self.ty)


BOOL = ("bool",)
UNT = ("untyped",)
INT = ("int", 64, True)
GOTY = {n: ("int", w, n in SIGNED) for n, w in INT_W.items()}
GOTY["bool"] = BOOL
GOTY["float32"] = ("f32",)


class Evaluator:
    def __init__(self, engine, defs=None):
        self.e = engine
        self.p = engine.p
        self.defs = defs if defs is not None else {}   # name -> (params[(name, tyname)], retty, ast)
        self.depth = 0
        self.hint = None

    def ty_of(self, tid):
        b = self.p.basic(tid)
        if b in GOTY:
            return GOTY[b]
        return ("go", tid)

    def wrap(self, v, tid, lv=None):
        return TV(v, self.ty_of(tid), lv)

    # ---- coercions
    def unify(self, a, b, what=""):
        if a.ty == UNT and b.ty == UNT:
            return a, b
        if a.ty == UNT:
            return self.lit(a.v, b.ty), b
        if b.ty == UNT:
            return a, self.lit(b.v, a.ty)
        if a.ty[0] == "int" and b.ty[0] == "int" and a.ty[1] != b.ty[1]:
            raise SpecError("width mismatch %r vs %r in %s" % (a.ty, b.ty, what))
        return a, b

    def lit(self, v, ty):
        if ty[0] == "int":
            return TV(z3.BitVecVal(v & ((1 << ty[1]) - 1), ty[1]), ty)
        if ty[0] == "f32":
            return TV(z3.FPVal(float(v), F32), ty)
        if ty[0] == "bool":
            raise SpecError("integer literal used as bool")
        raise SpecError("literal %r cannot take type %r" % (v, ty))

    def as_bool(self, x, what=""):
        if x.ty != BOOL:
            raise SpecError("boolean expected in %s, got %r" % (what, x.ty))
        return x.v

    # ---- evaluation
    def eval(self, ast, env, cur, old=None):
        k = ast[0]
        if k == "num":
            return TV(ast[1], UNT)
        if k == "bool":
            return TV(z3.BoolVal(ast[1]), BOOL)
        if k == "id":
            return self.ident(ast[1], env, cur, old)
        if k == "sel":
            base = self.eval(ast[1], env, cur, old)
            return self.select(base, ast[2], cur)
        if k == "idx":
            base = self.eval(ast[1], env, cur, old)
            idx = self.eval(ast[2], env, cur, old)
            return self.index(base, idx, cur)
        if k == "slice":
            raise SpecError("slice expression only allowed in assigns")
        if k == "un":
            return self.unary(ast[1], self.eval(ast[2], env, cur, old), cur)
        if k == "bin":
            return self.binary(ast, env, cur, old)
        if k == "call":
            return self.call(ast, env, cur, old)
        raise SpecError("bad ast %r" % (ast,))

    def ident(self, name, env, cur, old):
        if name in env:
            x = env[name]
            if callable(x) and not isinstance(x, TV):
                return x(cur, old if old is not None else cur)
            return x
        if name == "nil":
            return TV(NIL, ("nil",))
        if name in self.defs and not self.defs[name][0]:
            return self.call(("call", ("id", name), []), env, cur, old)
        raise SpecError("unknown identifier %r" % name)

    def deref(self, x, cur):
        """auto-dereference pointers (and unwrap an interface value to its dynamic value)"""
        if isinstance(x.v, Iface) and x.v.t is not None and isinstance(x.v.t, int):
            x = TV(x.v.v, self.ty_of(x.v.t), None)
        while isinstance(x.v, Ptr):
            if x.v.obj is None:
                raise SpecError("nil dereference in specification")
            if x.ty[0] != "go":
                break
            u = self.p.under(x.ty[1])
            if u["k"] != "ptr":
                break
            x = TV(self.e.load(cur, x.v), self.ty_of(u["elem"]), x.v)
        return x

    def select(self, base, name, cur):
        if isinstance(base.v, Iface) and base.v.t is not None and isinstance(base.v.t, int):
            base = TV(base.v.v, self.ty_of(base.v.t), None)
        if base.ty[0] != "go":
            raise SpecError("selector .%s on non-struct %r" % (name, base.ty))
        tid = base.ty[1]
        path = self.p.field_index(tid, name)
        if path is None:
            raise SpecError("no field %s in %s" % (name, self.p.tname(tid)))
        x = base
        for (fi, ft) in path:
            x = self.deref(x, cur)
            if not isinstance(x.v, StructV):
                raise SpecError("selector .%s through %r" % (name, x.v))
            lv = Ptr(x.lv.obj, x.lv.path + (fi,)) if x.lv is not None else None
            x = TV(x.v.items[fi], self.ty_of(ft), lv)
        return x

    def index(self, base, idx, cur):
        base = self.deref(base, cur)
        if idx.ty == UNT:
            i = idx.v
        elif idx.ty[0] == "int":
            i = concrete_int(idx.v, idx.ty[2])
            if i is None:
                i = to64(idx.v, idx.ty[2])
        else:
            raise SpecError("bad index type %r" % (idx.ty,))
        v = base.v
        if isinstance(v, SliceV):
            et = self.p.under(base.ty[1])["elem"]
            if v.obj is None:
                # a nil slice has no elements: the value is unconstrained (only reachable under an empty range)
                return TV(self.e.fresh(et, "nilslice.elem"), self.ty_of(et), None)
            lv = Ptr(v.obj, v.path + (idx_add(v.off, i),))
            return TV(self.e.load(cur, lv), self.ty_of(et), lv)
        if isinstance(v, (ArrV, ZArr)):
            et = self.p.under(base.ty[1])["elem"] if base.ty[0] == "go" else None
            lv = Ptr(base.lv.obj, base.lv.path + (i,)) if base.lv is not None else None
            return TV(self.e._get(v, (i,)), self.ty_of(et) if et is not None else None, lv)
        raise SpecError("index of %r" % (v,))

    def unary(self, op, x, cur):
        if op == "!":
            return TV(z3.Not(self.as_bool(x, "!")), BOOL)
        if op == "-":
            if x.ty == UNT:
                return TV(-x.v, UNT)
            return TV(-x.v, x.ty)
        if op == "^":
            if x.ty == UNT:
                return TV(~x.v, UNT)
            return TV(~x.v, x.ty)
        if op == "*":
            if not isinstance(x.v, Ptr) or x.ty[0] != "go":
                raise SpecError("deref of non-pointer")
            u = self.p.under(x.ty[1])
            if x.v.obj is None:
                raise SpecError("nil deref in spec")
            return TV(self.e.load(cur, x.v), self.ty_of(u["elem"]), x.v)
        if op == "&":
            if x.lv is None:
                raise SpecError("& of non-lvalue")
            return TV(x.lv, ("ptr",))
        raise SpecError("unary " + op)

    def binary(self, ast, env, cur, old):
        op = ast[1]
        if op in ("&&", "||", "==>", "<==>"):
            a = self.as_bool(self.eval(ast[2], env, cur, old), op)
            # short circuit on a decided left operand (so that `isnil(p) || p.f == 0` is well defined)
            ca = concrete_bool(a)
            if op == "&&" and ca is False:
                return TV(z3.BoolVal(False), BOOL)
            if op == "||" and ca is True:
                return TV(z3.BoolVal(True), BOOL)
            if op == "==>" and ca is False:
                return TV(z3.BoolVal(True), BOOL)
            b = self.as_bool(self.eval(ast[3], env, cur, old), op)
            if op == "&&":
                return TV(z3.And(a, b), BOOL)
            if op == "||":
                return TV(z3.Or(a, b), BOOL)
            if op == "==>":
                return TV(z3.Implies(a, b), BOOL)
            return TV(a == b, BOOL)
        a = self.eval(ast[2], env, cur, old)
        b = self.eval(ast[3], env, cur, old)
        if op in ("<<", ">>"):
            return self.shift(op, a, b)
        if op in ("==", "!="):
            r = self.equal(a, b)
            return TV(r if op == "==" else z3.Not(r), BOOL)
        a, b = self.unify(a, b, op)
        if a.ty == UNT:
            f = {"+": lambda x, y: x + y, "-": lambda x, y: x - y, "*": lambda x, y: x * y, "/": lambda x, y: int(x / y),
                 "%": lambda x, y: x - y * int(x / y), "&": lambda x, y: x & y, "|": lambda x, y: x | y, "^": lambda x, y: x ^ y,
                 "&^": lambda x, y: x & ~y, "<": lambda x, y: x < y, "<=": lambda x, y: x <= y, ">": lambda x, y: x > y,
                 ">=": lambda x, y: x >= y}[op]
            r = f(a.v, b.v)
            if isinstance(r, bool):
                return TV(z3.BoolVal(r), BOOL)
            return TV(r, UNT)
        if a.ty[0] == "f32":
            x, y = a.v, b.v
            f = {"+": lambda: z3.fpAdd(RNE, x, y), "-": lambda: z3.fpSub(RNE, x, y), "*": lambda: z3.fpMul(RNE, x, y),
                 "/": lambda: z3.fpDiv(RNE, x, y)}.get(op)
            if f:
                return TV(f(), a.ty)
            f = {"<": z3.fpLT, "<=": z3.fpLEQ, ">": z3.fpGT, ">=": z3.fpGEQ}[op]
            return TV(f(x, y), BOOL)
        if a.ty == BOOL:
            raise SpecError("operator %s on booleans" % op)
        if a.ty[0] != "int":
            raise SpecError("operator %s on %r" % (op, a.ty))
        sg = a.ty[2]
        x, y = a.v, b.v
        if op == "+":
            return TV(x + y, a.ty)
        if op == "-":
            return TV(x - y, a.ty)
        if op == "*":
            return TV(x * y, a.ty)
        if op == "/":
            return TV((x / y) if sg else z3.UDiv(x, y), a.ty)
        if op == "%":
            return TV(z3.SRem(x, y) if sg else z3.URem(x, y), a.ty)
        if op == "&":
            return TV(x & y, a.ty)
        if op == "|":
            return TV(x | y, a.ty)
        if op == "^":
            return TV(x ^ y, a.ty)
        if op == "&^":
            return TV(x & ~y, a.ty)
        if op == "<":
            return TV((x < y) if sg else z3.ULT(x, y), BOOL)
        if op == "<=":
            return TV((x <= y) if sg else z3.ULE(x, y), BOOL)
        if op == ">":
            return TV((x > y) if sg else z3.UGT(x, y), BOOL)
        if op == ">=":
            return TV((x >= y) if sg else z3.UGE(x, y), BOOL)
        raise SpecError("operator " + op)

    def shift(self, op, a, b):
        if a.ty == UNT and b.ty == UNT:
            return TV(a.v << b.v if op == "<<" else a.v >> b.v, UNT)
        if a.ty == UNT:
            raise SpecError("untyped shifted by typed count: add a conversion")
        w = a.ty[1]
        if b.ty == UNT:
            cnt = z3.BitVecVal(min(b.v, w), w)
        else:
            yw = b.ty[1]
            y = b.v
            if yw > w:
                cnt = z3.If(z3.UGE(y, z3.BitVecVal(w, yw)), z3.BitVecVal(w, w), z3.Extract(w - 1, 0, y))
            elif yw < w:
                cnt = z3.ZeroExt(w - yw, y)
            else:
                cnt = y
        if op == "<<":
            return TV(a.v << cnt, a.ty)
        return TV((a.v >> cnt) if a.ty[2] else z3.LShR(a.v, cnt), a.ty)

    def equal(self, a, b):
        if a.ty == UNT or b.ty == UNT:
            a, b = self.unify(a, b, "==")
            if a.ty == UNT:
                return z3.BoolVal(a.v == b.v)
        return self.val_eq(a.v, b.v)

    def val_eq(self, x, y):
        if is_z3(x) and is_z3(y):
            if x.sort() != y.sort():
                raise SpecError("== on different sorts %s %s" % (x.sort(), y.sort()))
            if z3.is_fp(x):
                return z3.fpEQ(x, y)
            return x == y
        if isinstance(x, ZArr) and isinstance(y, ZArr):
            return x.term == y.term
        if isinstance(x, (ArrV, StructV, TupleV)) and type(x) is type(y) and len(x.items) == len(y.items):
            return z3.And(*[self.val_eq(p, q) for p, q in zip(x.items, y.items)]) if x.items else z3.BoolVal(True)
        try:
            return z3.BoolVal(self.e.ref_eq(x, y))
        except Unsupported:
            raise SpecError("cannot compare %r and %r" % (x, y))

    def conv(self, x, ty):
        if x.ty == UNT:
            return self.lit(x.v, ty)
        if x.ty[0] == "int" and ty[0] == "int":
            ws, wd = x.ty[1], ty[1]
            if wd == ws:
                return TV(x.v, ty)
            if wd < ws:
                return TV(z3.Extract(wd - 1, 0, x.v), ty)
            return TV(z3.SignExt(wd - ws, x.v) if x.ty[2] else z3.ZeroExt(wd - ws, x.v), ty)
        if x.ty[0] == "int" and ty[0] == "f32":
            return TV(z3.fpSignedToFP(RNE, x.v, F32) if x.ty[2] else z3.fpUnsignedToFP(RNE, x.v, F32), ty)
        if x.ty == ty:
            return x
        raise SpecError("conversion %r -> %r" % (x.ty, ty))

    def call(self, ast, env, cur, old):
        f = ast[1]
        args = ast[2]
        if f[0] != "id":
            raise SpecError("only named functions can be called in specifications")
        name = f[1]
        if name == "old":
            if old is None:
                raise SpecError("old() used where there is no pre-state")
            r = self.eval(args[0], env, old, old)
            if isinstance(r.v, Ptr) and r.ty[0] == "go" and self.p.kind(r.ty[1]) == "ptr":
                raise SpecError("old() of a pointer is meaningless: wrap the whole expression that reads through it")
            return r
        if name in GOTY and name not in env:
            return self.conv(self.eval(args[0], env, cur, old), GOTY[name])
        if name == "imp":
            return TV(z3.Implies(self.as_bool(self.eval(args[0], env, cur, old)), self.as_bool(self.eval(args[1], env, cur, old))), BOOL)
        if name == "ite":
            c = self.as_bool(self.eval(args[0], env, cur, old))
            a = self.eval(args[1], env, cur, old)
            b = self.eval(args[2], env, cur, old)
            if a.ty == BOOL:
                return TV(z3.If(c, a.v, b.v), BOOL)
            a, b = self.unify(a, b, "ite")
            if a.ty == UNT:
                h = self.hint or INT
                a, b = self.lit(a.v, h), self.lit(b.v, h)
            return TV(self.e.merge_val(c, a.v, b.v), a.ty)
        if name == "len":
            x = self.deref(self.eval(args[0], env, cur, old), cur)
            if isinstance(x.v, SliceV):
                return TV(idx_term(x.v.len), INT)
            if isinstance(x.v, ArrV):
                return TV(len(x.v.items), UNT)
            if isinstance(x.v, ZArr):
                return TV(x.v.n, UNT)
            raise SpecError("len of %r" % (x.v,))
        if name in ("forall", "exists"):
            if args[0][0] != "id":
                raise SpecError("forall(var, lo, hi, body)")
            vn = args[0][1]
            k = z3.BitVec(self.e.fresh_name(vn), 64)
            lo = self.conv(self.eval(args[1], env, cur, old), INT).v
            hi = self.conv(self.eval(args[2], env, cur, old), INT).v
            env2 = dict(env)
            env2[vn] = TV(k, INT)
            body = self.as_bool(self.eval(args[3], env2, cur, old))
            rng = z3.And(lo <= k, k < hi)
            if name == "forall":
                return TV(z3.ForAll([k], z3.Implies(rng, body)), BOOL)
            return TV(z3.Exists([k], z3.And(rng, body)), BOOL)
        if name == "store":
            a = self.deref(self.eval(args[0], env, cur, old), cur)
            i = self.conv(self.eval(args[1], env, cur, old), INT)
            v = self.eval(args[2], env, cur, old)
            if not isinstance(a.v, ZArr):
                raise SpecError("store() on non-array")
            if v.ty == UNT:
                v = self.lit(v.v, self.ty_of(a.v.et))
            return TV(ZArr(z3.Store(a.v.term, i.v, v.v), a.v.et, a.v.n), a.ty)
        if name == "isnil":
            x = self.eval(args[0], env, cur, old)
            v = x.v
            if isinstance(v, Ptr):
                return TV(z3.BoolVal(v.obj is None), BOOL)
            if isinstance(v, SliceV):
                return TV(z3.BoolVal(v.obj is None), BOOL)
            if isinstance(v, Closure):
                return TV(z3.BoolVal(v.fn is None), BOOL)
            if isinstance(v, Iface):
                return TV(z3.BoolVal(v.t is None), BOOL)
            if isinstance(v, ChanV):
                return TV(z3.BoolVal(v.id is None), BOOL)
            raise SpecError("isnil of %r" % (v,))
        if name == "ghost":
            gn = args[0][1]
            if gn not in cur.ghost:
                raise SpecError("no ghost variable %r in this verification" % gn)
            g = cur.ghost[gn]
            if is_z3(g) and z3.is_bool(g):
                return TV(g, BOOL)
            return TV(g, INT)
        if name == "ntrace":
            base = len(old.trace) if old is not None else 0
            n = len(cur.trace) - base
            if args:
                kind = args[0][1]
                n = sum(1 for ev in cur.trace[base:] if ev[0] == kind)
            return TV(n, UNT)
        if name in ("tracearg", "tracekind"):
            base = len(old.trace) if old is not None else 0
            i = self.eval(args[0], env, cur, old)
            if i.ty != UNT:
                raise SpecError("tracearg index must be a literal")
            if base + i.v >= len(cur.trace):
                return TV(z3.BoolVal(False), BOOL) if name == "tracekind" else TV(0, UNT)
            ev = cur.trace[base + i.v]
            if name == "tracekind":
                return TV(z3.BoolVal(ev[0] == args[1][1]), BOOL)
            j = self.eval(args[1], env, cur, old).v
            v = ev[1 + j]
            if is_z3(v) and z3.is_bv(v):
                return TV(v, ("int", v.size(), False))
            if is_z3(v) and z3.is_bool(v):
                return TV(v, BOOL)
            if is_z3(v) and z3.is_fp(v):
                return TV(v, ("f32",))
            return TV(v, ("ref",))
        if name == "bool2u8":
            b = self.as_bool(self.eval(args[0], env, cur, old))
            return TV(z3.If(b, z3.BitVecVal(1, 8), z3.BitVecVal(0, 8)), GOTY["uint8"])
        if name == "sext":   # sext(x, toType) helper not needed: use int8()/int() conversions
            raise SpecError("use conversions")
        if name in self.defs:
            params, retty, body, defenv = self.defs[name]
            if len(params) != len(args):
                raise SpecError("%s expects %d arguments" % (name, len(params)))
            env2 = dict(defenv) if defenv else {}
            for (pn, pty), a in zip(params, args):
                v = self.eval(a, env, cur, old)
                if pty in GOTY:
                    if v.ty == UNT:
                        v = self.lit(v.v, GOTY[pty])
                    elif v.ty != GOTY[pty]:
                        if v.ty[0] == "int" and GOTY[pty][0] == "int" and v.ty[1] == GOTY[pty][1]:
                            v = TV(v.v, GOTY[pty])
                        else:
                            raise SpecError("argument %s of %s: have %r want %s" % (pn, name, v.ty, pty))
                env2[pn] = v
            self.depth += 1
            if self.depth > 200:
                raise SpecError("specification recursion too deep in " + name)
            oldhint = self.hint
            self.hint = GOTY.get(retty) if retty else None
            try:
                r = self.eval(body, env2, cur, old)
            finally:
                self.depth -= 1
                self.hint = oldhint
            if retty and retty in GOTY and r.ty == UNT:
                r = self.lit(r.v, GOTY[retty])
            return r
        raise SpecError("unknown function %r" % name)

    # ---- lvalues for assigns
    def lvalues(self, ast, env, cur):
        """returns list of location descriptors: ('loc', Ptr, ty) | ('range', Ptr(array), lo, hi, ty) | ('all', obj)"""
        if ast[0] == "slice":
            base = self.deref(self.eval(ast[1], env, cur, cur), cur)
            lo = self.conv(self.eval(ast[2], env, cur, cur), INT).v if ast[2] is not None else z3.BitVecVal(0, 64)
            if ast[3] is not None:
                hi = self.conv(self.eval(ast[3], env, cur, cur), INT).v
            else:
                hi = z3.BitVecVal(base.v.n if isinstance(base.v, ZArr) else len(base.v.items), 64)
            if isinstance(base.v, SliceV):
                arrp = Ptr(base.v.obj, base.v.path)
                off = idx_term(base.v.off)
                return [("range", arrp, off + lo, off + hi, base.ty)]
            return [("range", base.lv, lo, hi, base.ty)]
        if ast[0] == "un" and ast[1] == "*":
            x = self.eval(ast[2], env, cur, cur)
            if not isinstance(x.v, Ptr):
                raise SpecError("assigns *x: x is not a pointer")
            u = self.p.under(x.ty[1])
            return [("loc", x.v, self.ty_of(u["elem"]))]
        x = self.eval(ast, env, cur, cur)
        if x.lv is None:
            raise SpecError("assigns target is not a location: %r" % (ast,))
        return [("loc", x.lv, x.ty)]


def parse_def(line):
    """def name(a uint8, b uint16) uint8 = expr   ->  (name, params, retty, ast)"""
    m = re.match(r"\s*(?:def|pred)\s+([A-Za-z_]\w*)\s*\(([^)]*)\)\s*([A-Za-z_]\w*)?\s*=\s*(.*)$", line, re.S)
    if not m:
        raise SpecError("bad definition: %r" % line)
    name, ps, ret, body = m.groups()
    params = []
    for p in ps.split(","):
        p = p.strip()
        if not p:
            continue
        parts = p.split()
        if len(parts) == 1:
            params.append((parts[0], None))
        else:
            params.append((parts[0], parts[1]))
    return name, params, ret, parse(body)


def load_defs(path, defs):
    """load a .vsl file of definitions (lines may continue with leading whitespace)"""
    cur = None
    with open(path) as f:
        for raw in f:
            line = raw.rstrip("\n")
            if line.strip().startswith("#") or not line.strip():
                continue
            if re.match(r"(def|pred)\s", line):
                if cur:
                    n, ps, r, b = parse_def(cur)
                    defs[n] = (ps, r, b, None)
                cur = line
            else:
                cur = (cur or "") + " " + line.strip()
    if cur:
        n, ps, r, b = parse_def(cur)
        defs[n] = (ps, r, b, None)
