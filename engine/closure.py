"""Modular-proof closure per property. A check that uses a callee through its contract (modular call) relies on that contract;
so that every property's verdict stands on obligations discharged by its own check, the contracts it used are discharged in the
same run: for every callee contract used and not already under a function task of this property, the function tasks that the
other properties define for that callee (same arguments, overrides and variants) are run as well, keeping an obligation iff at
least one of its home properties keeps it. Repeated until no new callee appears (the added tasks may use further contracts)."""
import importlib, os
from .prog import short

# owned by C06/C07 (decoder lemmas): heavy, and never used modularly except by DMA source reads (abstract bus there)
SKIP = {"(*memory.Mapper).Read", "(*memory.Mapper).Write"}
PROPS = ["C%02d" % i for i in range(1, 27)]
_REG = None


def registry(ctx):
    """function short name -> {task name -> [tasks of all properties with that name]}"""
    global _REG
    if _REG is not None:
        return _REG
    reg = {}
    saved = os.environ.pop("VERIF_ONLY", None)
    try:
        for pid in PROPS:
            try:
                mod = importlib.import_module("props." + pid)
                ts = mod.tasks(ctx)
            except Exception:
                continue
            for t in ts:
                if getattr(t, "kind", "") != "function" or not t.fn or not ctx.prog.has_func(t.fn):
                    continue
                fn = ctx.prog.func(t.fn).short
                reg.setdefault(fn, {}).setdefault(t.name, []).append(t)
    finally:
        if saved is not None:
            os.environ["VERIF_ONLY"] = saved
    _REG = reg
    return reg


def union_keep(ts):
    keeps = [t.keep for t in ts]
    if any(k is None for k in keeps):
        return None
    return lambda name, _ks=keeps: any(k(name) for k in _ks)


def missing_tasks(ctx, tasks, outs, done):
    used = set()
    for o in outs:
        used.update((o.get("stats") or {}).get("modular_calls", []) or [])
    have = set(done)
    own_keeps = {}
    for t in tasks:
        if getattr(t, "kind", "") == "function" and t.fn and ctx.prog.has_func(t.fn):
            fn = ctx.prog.func(t.fn).short
            if t.keep is None:
                have.add(fn)
            else:
                own_keeps.setdefault(fn, []).append(t.keep)
    new = []
    reg = registry(ctx)
    unknown = []
    from .driver import Task
    for fn in sorted(used - have - SKIP):
        done.add(fn)
        variants = reg.get(fn)
        if not variants:
            if fn not in own_keeps:
                unknown.append(fn)
            continue
        mine = own_keeps.get(fn)
        for name, ts in sorted(variants.items()):
            base = ts[0]
            uk = union_keep(ts)
            if mine:
                # the property has a task for this function that keeps only some clauses: the closure adds the others
                keep = (lambda n, _u=uk, _m=mine: (_u is None or _u(n)) and not any(k(n) for k in _m))
            else:
                keep = uk
            t = Task(name, base.fn, keep=keep, **dict(base.kw))
            t.closure = True
            new.append(t)
    return new, unknown


INV_LABELS = ("inv", "ok", "xinv", "pal", "valid", "phase", "window", "disarmed", "pla")


def _inv_keep(name):
    import re
    m = re.search(r"#([a-z-]+):(.*)$", name)
    if not m:
        return False
    kind, rest = m.group(1), m.group(2)
    return kind == "requires" or (kind == "ensures" and rest in INV_LABELS)


def invariant_tasks(ctx, tasks, packages, done_names):
    """inductive-invariant closure: a property whose lemmas assume a component's representation invariant in every reachable
    state also discharges that the invariant is preserved by every function of that component that has a contract saying so
    (the clauses labelled inv/ok/xinv/pal/valid/phase/...), again through the function tasks the properties define"""
    from .driver import Task
    reg = registry(ctx)
    have = {t.name for t in tasks} | set(done_names)
    new = []
    # tasks the property already has for functions of these packages keep their invariant clauses too
    for t in tasks:
        if getattr(t, "kind", "") == "function" and t.fn and ctx.prog.has_func(t.fn) and t.keep is not None:
            f = ctx.prog.func(t.fn)
            if f.pkg and f.pkg.rsplit("/", 1)[-1] in packages:
                t.keep = (lambda n, _k=t.keep: _k(n) or _inv_keep(n))
    for fn, variants in sorted(reg.items()):
        f = ctx.prog.func(fn) if ctx.prog.has_func(fn) else None
        if f is None or not f.pkg or f.pkg.rsplit("/", 1)[-1] not in packages or fn in SKIP:
            continue
        c = ctx.contracts.get(f.name)
        if c is None or not any((e.label or "") in INV_LABELS for e in c.ensures):
            continue
        for name, ts in sorted(variants.items()):
            if name in have:
                continue
            base = ts[0]
            uk = union_keep(ts)
            t = Task(name, base.fn, keep=(None if uk is None else (lambda n, _k=uk: _k(n) or _inv_keep(n))), **dict(base.kw))
            t.closure = True
            new.append(t)
            have.add(name)
    return new
