"""Discharge obligations: z3py in-process first, then a race of /usr/bin/z3 (4.8.12), z3-new (5.1.0) and cvc5."""
import os, subprocess, tempfile, time, shutil, re
import z3

SOLVERS = [("z3-4.8.12", ["/usr/bin/z3", "-smt2"]), ("z3-5.1.0", ["z3-new", "-smt2"]), ("cvc5", ["cvc5", "--lang=smt2"])]


class Result:
    def __init__(self, name, status, backend, time_s, model=None, kind="", detail=""):
        self.name, self.status, self.backend, self.time_s, self.model, self.kind, self.detail = \
            name, status, backend, time_s, model, kind, detail

    def asdict(self):
        return {"obligation": self.name, "result": self.status, "backend": self.backend, "time_s": round(self.time_s, 4),
                "kind": self.kind}


def to_smt2(formula, logic=None):
    s = z3.Solver()
    s.add(formula)
    txt = s.to_smt2()
    return txt


def run_external(smt2, timeout_s, which=None):
    """race the external solvers on one query; returns (status, backend, seconds, raw output)"""
    d = tempfile.mkdtemp(prefix="verif-smt-", dir=os.environ.get("VERIF_SCRATCH", "/var/tmp"))
    try:
        path = os.path.join(d, "q.smt2")
        with open(path, "w") as f:
            f.write(smt2)
        # cvc5 wants an explicit logic (and model production declared before it)
        path_cvc5 = os.path.join(d, "q.cvc5.smt2")
        with open(path_cvc5, "w") as f:
            f.write("(set-logic ALL)\n" + smt2)
        procs = []
        t0 = time.time()
        for name, cmd in SOLVERS:
            if which and name not in which:
                continue
            if shutil.which(cmd[0]) is None:
                continue
            extra = []
            if name.startswith("z3"):
                extra = ["-T:%d" % max(1, int(timeout_s))]
            else:
                extra = ["--tlimit=%d" % int(timeout_s * 1000)]
            try:
                pr = subprocess.Popen(cmd + extra + [path if name != "cvc5" else path_cvc5], stdout=subprocess.PIPE, stderr=subprocess.STDOUT, text=True)
                procs.append((name, pr))
            except OSError:
                pass
        result = ("unknown", "none", 0.0, "")
        pending = list(procs)
        outs = {}
        while pending and time.time() - t0 < timeout_s + 2:
            for name, pr in list(pending):
                if pr.poll() is not None:
                    out = pr.stdout.read()
                    outs[name] = out
                    pending.remove((name, pr))
                    first = out.strip().split("\n")[0].strip() if out.strip() else ""
                    if first in ("sat", "unsat"):
                        result = (first, name, time.time() - t0, out)
                        pending_kill = pending
                        for _, q in pending_kill:
                            q.kill()
                        pending = []
                        break
            else:
                time.sleep(0.01)
                continue
        for _, pr in procs:
            if pr.poll() is None:
                pr.kill()
        if result[0] == "unknown":
            result = ("unknown", "all", time.time() - t0, "\n".join("%s: %s" % (k, v[:300]) for k, v in outs.items()))
        return result
    finally:
        shutil.rmtree(d, ignore_errors=True)


def load_factor():
    """solver timeouts are wall-clock: on an oversubscribed machine (several checks at once) a query that needs 5 s of CPU
    can miss a 20 s budget. The budgets are stretched by the 1-minute load per core (1x .. 5x), so that a busy machine makes
    a check slower, not wrong."""
    try:
        return min(5.0, max(1.0, os.getloadavg()[0] / max(1, os.cpu_count() or 1)))
    except (OSError, AttributeError):
        return 1.0


def solve_one(ob, timeout_ms=10000, external=True, all_solvers=False):
    t0 = time.time()
    if getattr(ob, "trivial", False):
        return Result(ob.name, "unsat", "simplifier", 0.0, kind=ob.kind)
    timeout_ms = int(timeout_ms * load_factor())
    s = z3.Solver()
    s.set("timeout", timeout_ms)
    s.add(ob.viol)
    try:
        r = s.check()
    except z3.Z3Exception as ex:
        r = z3.unknown
    dt = time.time() - t0
    if r == z3.unsat:
        res = Result(ob.name, "unsat", "z3py-" + z3.get_version_string(), dt, kind=ob.kind)
    elif r == z3.sat:
        res = Result(ob.name, "sat", "z3py-" + z3.get_version_string(), dt, model=s.model(), kind=ob.kind)
    else:
        res = Result(ob.name, "unknown", "z3py-" + z3.get_version_string(), dt, kind=ob.kind, detail=str(s.reason_unknown()))
        if external:
            st, be, secs, raw = run_external(to_smt2(ob.viol), max(10, timeout_ms / 1000 * 3))
            if st in ("sat", "unsat"):
                res = Result(ob.name, st, be, dt + secs, kind=ob.kind, detail=raw[:2000])
                if st == "sat":
                    # try to get a model in-process with a longer timeout for the replay
                    s2 = z3.Solver()
                    s2.set("timeout", timeout_ms * 3)
                    s2.add(ob.viol)
                    if s2.check() == z3.sat:
                        res.model = s2.model()
            else:
                res.detail = (res.detail + " | " + raw)[:2000]
    if all_solvers and res.status == "unsat":
        agree = {}
        smt = to_smt2(ob.viol)
        for name, _ in SOLVERS:
            st, be, secs, raw = run_external(smt, max(20, timeout_ms / 1000 * 5), which=[name])
            agree[name] = (st, round(secs, 3))
        res.agree = agree
    return res


def check_sat(formula, timeout_ms=10000):
    timeout_ms = int(timeout_ms * load_factor())
    s = z3.Solver()
    s.set("timeout", timeout_ms)
    s.add(formula)
    r = s.check()
    if r == z3.unknown:
        # a cover (reachability of a precondition) that times out on a loaded machine must not break the check: the three
        # external solvers get three times the budget before the answer is left undecided
        try:
            st, be, secs, raw = run_external(to_smt2(formula), max(30, timeout_ms / 1000 * 3))
        except Exception:
            st = "unknown"
        if st in ("sat", "unsat"):
            return st, None
    return str(r), (s.model() if r == z3.sat else None)
