"""Verification of one function against its contract: symbolic pre-state ("world"), execution of the real
body, postcondition / frame / no-panic obligations."""
import time, re
import z3
from .core import (Engine, State, Ptr, NIL, SliceV, NILSLICE, Closure, NILFUNC, Iface, NILIFACE, StructV, ArrV, ZArr,
                   TupleV, ChanV, NILCHAN, StrV, Opaque, Unsupported, Oblig, concrete_int, concrete_bool, idx_term,
                   is_z3, BV64, step_eq)
from .vsl import TV, SpecError, INT
from .prog import short

COMPONENTS = ["interrupts.Interrupts", "oam.OAM", "ppu.PPU", "timer.Timer", "audio.Audio", "controller.Controller",
              "serial.Serial", "memory.Mapper", "memory.rtc", "cpu.CPU"]


class World:
    """symbolic object graph shaped as gameboy.New wires it: one object per component type"""

    def __init__(self, eng, st, overrides=None):
        self.e = eng
        self.p = eng.p
        self.st = st
        self.ov = overrides or {}
        self.single = {}      # type short name -> Ptr
        self.symloc = {}      # z3 const name -> (obj, path, tid, role)
        self.objname = {}     # obj id -> name

    def component(self, tname):
        """pointer to the unique object of named struct type tname (e.g. 'timer.Timer')"""
        if tname in self.single:
            return self.single[tname]
        tid = self.p.named[tname]
        label = tname.split(".")[-1]
        oid = self.e.new_obj(self.st, None, tid, label)
        ptr = Ptr(oid, ())
        self.single[tname] = ptr
        self.objname[oid] = label
        self.st.heap[oid] = self.sym(tid, label, oid, ())
        return ptr

    def new_object(self, tid, name):
        oid = self.e.new_obj(self.st, None, tid, name)
        self.objname[oid] = name
        self.st.heap[oid] = self.sym(tid, name, oid, ())
        return Ptr(oid, ())

    def sym(self, tid, name, oid, path):
        p = self.p
        if name in self.ov:
            return self.ov[name](self, tid, name, oid, path)
        k = p.kind(tid)
        if k == "basic":
            v = self.e.fresh(tid, name)
            if is_z3(v):
                self.symloc[str(v)] = (oid, path, tid, "scalar")
            return v
        if k == "struct":
            return StructV([self.sym(f["t"], name + "." + f["name"], oid, path + (i,))
                            for i, f in enumerate(p.struct_fields(tid))])
        if k == "array":
            u = p.under(tid)
            if self.e.big_array(tid):
                v = self.e.fresh(tid, name)
                self.symloc[str(v.term)] = (oid, path, tid, "array")
                return v
            return ArrV([self.sym(u["elem"], "%s[%d]" % (name, i), oid, path + (i,)) for i in range(u["len"])])
        if k == "ptr":
            et = p.under(tid)["elem"]
            tn = short(p.types[et]["s"]) if p.types[et]["k"] == "named" else None
            if tn in COMPONENTS:
                return self.component(tn)
            if p.kind(et) == "struct":
                return self.new_object(et, name)
            return NIL
        if k == "slice":
            et = p.under(tid)["elem"]
            ek = p.kind(et)
            if (ek == "basic" and p.basic(et) != "string") or (ek == "array" and p.kind(p.under(et)["elem"]) == "basic"):
                srt = z3.ArraySort(BV64, self.e.sort_of(et))
                arr = z3.Const(self.e.fresh_name(name + ".data"), srt)
                boid = self.e.new_obj(self.st, ZArr(arr, et, None), None, name + ".data")
                self.objname[boid] = name + ".data"
                ln = z3.BitVec(self.e.fresh_name(name + ".len"), 64)
                self.st.pc.append(z3.And(ln >= 0, ln <= (1 << 24)))
                self.symloc[str(arr)] = (boid, (), None, "slicedata")
                self.symloc[str(ln)] = (oid, path, tid, "slicelen")
                return SliceV(boid, (), 0, ln, ln)
            return NILSLICE
        if k == "func":
            return NILFUNC
        if k == "iface":
            return NILIFACE
        if k == "chan":
            return NILCHAN
        if k == "map":
            return Opaque("map")
        raise Unsupported("world value of kind %s (%s)" % (k, name))


def loc_name(eng, st, oid, path, names=None):
    """human-readable, line-free name of a heap location"""
    tid = st.otype.get(oid)
    nm = (names or {}).get(oid, str(oid))
    p = eng.p
    for stp in path:
        if tid is None:
            nm += "[%s]" % (stp if isinstance(stp, int) else "?")
            continue
        k = p.kind(tid)
        if k == "struct":
            f = p.struct_fields(tid)[stp]
            nm += "." + f["name"]
            tid = f["t"]
        elif k in ("array", "slice"):
            nm += "[%s]" % (stp if isinstance(stp, int) else "?")
            tid = p.under(tid)["elem"]
        else:
            nm += "[%s]" % (stp if isinstance(stp, int) else "?")
    return nm


def _lv_cover(lvs, oid, path):
    """condition under which location (oid, concrete path) is covered by one of the assignable lvalues.
    returns True (always), or a list of z3 conditions (possibly empty = never)"""
    conds = []
    for lv in lvs:
        if lv[0] == "loc":
            ptr = lv[1]
            if ptr.obj != oid or len(ptr.path) > len(path):
                continue
            c = []
            ok = True
            for a, b in zip(ptr.path, path):
                if isinstance(a, int) and isinstance(b, int):
                    if a != b:
                        ok = False
                        break
                elif isinstance(b, int):
                    c.append(a == z3.BitVecVal(b, 64))
                else:
                    ok = False
                    break
            if not ok:
                continue
            if not c:
                return True
            conds.append(z3.And(*c))
        elif lv[0] == "range":
            ptr, lo, hi = lv[1], lv[2], lv[3]
            if ptr.obj != oid or len(ptr.path) >= len(path):
                continue
            if not all(step_eq(a, b) for a, b in zip(ptr.path, path)):
                continue
            j = path[len(ptr.path)]
            if isinstance(j, int):
                conds.append(z3.And(lo <= j, z3.BitVecVal(j, 64) < hi))
    return conds


def _zarr_exclusions(lvs, oid, path, ks):
    """for a z3-array leaf at (oid,path): condition that index tuple ks is covered by an assignable lvalue"""
    conds = []
    for lv in lvs:
        ptr = lv[1]
        if ptr.obj != oid:
            continue
        if lv[0] == "loc":
            if len(ptr.path) <= len(path):
                if all(step_eq(a, b) for a, b in zip(ptr.path, path)):
                    return True
                continue
            if not all(step_eq(a, b) for a, b in zip(ptr.path, path)):
                continue
            extra = ptr.path[len(path):]
            if len(extra) > len(ks):
                continue
            conds.append(z3.And(*[idx_term(a) == k for a, k in zip(extra, ks)]))
        else:
            lo, hi = lv[2], lv[3]
            if not all(step_eq(a, b) for a, b in zip(ptr.path, path)) or len(ptr.path) < len(path):
                continue
            extra = ptr.path[len(path):]
            if len(extra) + 1 > len(ks):
                continue
            c = [idx_term(a) == k for a, k in zip(extra, ks)]
            kk = ks[len(extra)]
            c.append(z3.And(lo <= kk, kk < hi))
            conds.append(z3.And(*c))
    return conds


def frame_obligations(eng, ceval, pre, post, lvs, prefix, only_objs=None, names=None, kind="assigns"):
    """every location of `pre` that is not covered by the assignable set must be unchanged in `post`"""
    def walk(oid, path, v0, v1):
        if v0 is v1:
            return
        if is_z3(v0) and is_z3(v1):
            if v0.eq(v1):
                return
            cov = _lv_cover(lvs, oid, path)
            if cov is True:
                return
            neq = z3.Not(ceval.ev.val_eq(v0, v1))
            viol = z3.And(neq, *[z3.Not(c) for c in cov]) if cov else neq
            eng.oblige(post, kind, "%s:%s" % (prefix, loc_name(eng, pre, oid, path, names)), viol)
            return
        if isinstance(v0, ZArr) and isinstance(v1, ZArr):
            if v0.term.eq(v1.term):
                return
            depth = 1
            srt = v0.term.sort().range()
            while isinstance(srt, z3.ArraySortRef):
                depth += 1
                srt = srt.range()
            ks = [z3.BitVec(eng.fresh_name("fk"), 64) for _ in range(depth)]
            cov = _zarr_exclusions(lvs, oid, path, ks)
            if cov is True:
                return
            a, b = v0.term, v1.term
            for k in ks:
                a, b = z3.Select(a, k), z3.Select(b, k)
            viol = z3.And(a != b, *[z3.Not(c) for c in cov]) if cov else (a != b)
            eng.oblige(post, kind, "%s:%s" % (prefix, loc_name(eng, pre, oid, path, names)), viol)
            return
        if isinstance(v0, (StructV, ArrV)) and type(v0) is type(v1) and len(v0.items) == len(v1.items):
            for i, (x, y) in enumerate(zip(v0.items, v1.items)):
                walk(oid, path + (i,), x, y)
            return
        # reference-like leaves
        same = False
        try:
            same = type(v0) is type(v1) and (eng.ref_eq(v0, v1) if not isinstance(v0, (SliceV,)) else
                                               (v0.obj == v1.obj and step_eq(idx_term(v0.off), idx_term(v1.off)) and
                                                step_eq(idx_term(v0.len), idx_term(v1.len))))
        except Unsupported:
            same = False
        if isinstance(v0, Closure) and isinstance(v1, Closure):
            same = v0.fn == v1.fn and len(v0.bind) == len(v1.bind)
        if isinstance(v0, Opaque) or isinstance(v1, Opaque):
            same = True
        if same:
            return
        cov = _lv_cover(lvs, oid, path)
        if cov is True:
            return
        eng.oblige(post, kind, "%s:%s" % (prefix, loc_name(eng, pre, oid, path, names)),
                   z3.And(*[z3.Not(c) for c in cov]) if cov else z3.BoolVal(True))

    for oid, v0 in pre.heap.items():
        if only_objs is not None and oid not in only_objs:
            continue
        if oid not in post.heap:
            continue
        walk(oid, (), v0, post.heap[oid])


class FuncResult:
    def __init__(self, fn):
        self.fn = fn
        self.obligs = []
        self.covers = []     # (name, formula) that must be SAT (vacuity guards)
        self.world = None
        self.pre = None
        self.args = None
        self.error = None
        self.stats = None
        self.outs = []
        self.terminals = []
        self.time = 0.0


def verify_function(eng, ceval, fname, variant="", overrides=None, args=None, setup=None, modular=None,
                    extra_requires=(), check_frame=True, tag=None):
    """Run the real body of `fname` from a symbolic pre-state satisfying its `requires`, and emit obligations
    for ensures / assigns / no-panic.  `setup(world, st)` may adjust the pre-state; `args` overrides arguments."""
    p = eng.p
    f = p.func(fname)
    c = ceval.contracts.get(f.name)
    res = FuncResult(f.short)
    t0 = time.time()
    label = f.short + (("[" + variant + "]") if variant else "")
    eng.obligs = []
    eng.terminals = []
    eng.site_prefix = ""
    eng.ev = ceval
    st = State()
    w = World(eng, st, overrides)
    res.world = w
    if args is None:
        args = []
        for prm in f.params:
            args.append(w.sym(prm["t"], prm["name"], "arg:" + prm["name"], ()))
    elif callable(args):
        args = args(w, st)
    fvs = []
    if setup is not None:
        r = setup(w, st, args)
        if r is not None:
            fvs = r
    res.args = args
    env = ceval.param_env(f, args, c)
    if c is not None:
        for r in c.requires:
            st.assume(ceval.holds(r, env, st, st))
    # representation invariant of the receiver's type (typeinv clauses): assumed on entry of every method
    tinv = (ceval.defs.get("$typeinv") or {}) if isinstance(ceval.defs, dict) else {}
    if tinv and f.d.get("hasrecv") and f.params and args:
        m = re.match(r"(\(\*[^)]+\))\.", f.name)
        for ast in (tinv.get(m.group(1)) if m else None) or []:
            try:
                st.assume(ceval.ev.as_bool(ceval.ev.eval(ast, {"self": TV(args[0], ceval.ev.ty_of(f.params[0]["t"]), None)}, st, st)))
            except SpecError:
                pass
    for r in extra_requires:
        st.assume(r(w, st, args) if callable(r) else r)
    res.covers.append((label + "#cover:requires", st.pcond()))
    pre = st.fork()
    res.pre = pre
    # callees with a usable contract are replaced by it
    if modular is None:
        modular = {k for k, cc in ceval.contracts.items() if cc.assigns is not None and not cc.inline}
    eng.modular = set(modular) - {f.name}
    eng.contracts = ceval.contracts
    outs = eng.exec_body(st, f, list(args), list(fvs))
    outs = [(s, v) for (s, _, v) in eng.merge_all([(s, {}, v) for (s, v) in outs])]
    res.outs = outs
    body_obligs = eng.obligs
    eng.obligs = []
    lvs = None
    if c is not None and c.assigns is not None:
        lvs = []
        for a in c.assigns:
            try:
                lvs.extend(ceval.ev.lvalues(a, env, pre))
            except SpecError as ex:
                if "no field" not in str(ex) and "nil deref" not in str(ex):
                    raise   # a location that does not exist (or hangs off a nil pointer) cannot be assigned
    for oi, (s, v) in enumerate(outs):
        env2 = ceval.result_env(env, f, v)
        if c is not None:
            for i, en in enumerate(c.ensures):
                try:
                    cond = ceval.holds(en, env2, s, pre)
                except SpecError as ex:
                    if "no field" not in str(ex) and "different sorts" not in str(ex) and "width mismatch" not in str(ex):
                        raise
                    # the clause speaks about state the code does not have (any more), or has with another type: it cannot hold
                    eng.oblige(s.fork(), "ensures", "%s" % (en.label or i), z3.BoolVal(True),
                               {"clause": en.text, "detail": "contract clause cannot be evaluated on this tree: %s" % ex})
                    continue
                eng.oblige(s.fork(), "ensures", "%s" % (en.label or i), z3.Not(cond), {"clause": en.text, "result": v})
        # ... and re-established on every normal return (the other half of the object-invariant methodology)
        if tinv and f.d.get("hasrecv") and f.params and args:
            m = re.match(r"(\(\*[^)]+\))\.", f.name)
            for ast in (tinv.get(m.group(1)) if m else None) or []:
                try:
                    ok = ceval.ev.as_bool(ceval.ev.eval(ast, {"self": TV(args[0], ceval.ev.ty_of(f.params[0]["t"]), None)}, s, s))
                except SpecError:
                    continue
                eng.oblige(s.fork(), "ensures", "typeinv", z3.Not(ok), {"clause": "type invariant of the receiver"})
        if lvs is not None and check_frame:
            frame_obligations(eng, ceval, pre, s.fork(), lvs, "", names=w.objname)
    for t in eng.terminals:
        if t.kind == "panic" and not (c is not None and c.panics_allowed):
            eng.oblige(t.state.fork(), "no-panic", "panic@" + t.site, z3.BoolVal(True))
        if t.kind == "exit" and not (c is not None and c.exits_allowed):
            eng.oblige(t.state.fork(), "no-exit", "exit@" + t.site, z3.BoolVal(True))
    res.terminals = eng.terminals
    allob = body_obligs + eng.obligs
    # names: <func>[variant]#<kind>:<site>, de-duplicated by merging (disjunction)
    byname = {}
    for ob in allob:
        if c is not None and c.panics_allowed and ob.kind == "no-panic":
            continue
        site = ob.site
        if site.startswith(":"):
            site = site[1:]
        # obligation names are line-free: all sites of one kind inside one function are merged (disjunction)
        stable = re.sub(r"@[A-Za-z0-9_]+\.go:\d+", "", site)
        stable = re.sub(r"@\?", "", stable)
        if stable != site:
            ob.info = dict(ob.info or {})
            ob.info.setdefault("sites", []).append(site)
        ob.name = "%s#%s:%s" % (label, ob.kind, stable)
        ob.func = f.short
        ob.variant = variant
        if ob.name in byname:
            o0 = byname[ob.name]
            o0.viol = z3.Or(o0.viol, ob.viol)
        else:
            byname[ob.name] = ob
    res.obligs = list(byname.values())
    for ob in res.obligs:
        ob.world = w
        ob.pre = pre
        ob.args = args
        ob.fvs = fvs
    res.time = time.time() - t0
    res.stats = dict(eng.stats)
    return res
