"""Replay of lemma-level counterexamples that are sequences of calls through the real API (decoder lemmas, write-effect
lemmas, register read-back lemmas): the model's pre-state is installed, the calls are made in order on the real code, and
every returned value and the final heap are compared with the engine's predictions under the model."""
import json
import z3
from .core import Ptr, is_z3, TupleV
from .replay import GoGen, build_state, run_go_test, mval, HELPERS, predicted_leaves, go_scalar, mentions_havoc


def script_info(world, pre, pkg, calls, results, final, roots):
    """calls: list of (function short name, [args]); results: list of engine result values (or None); final: engine state"""
    return {"script": {"world": world, "pre": pre, "pkg": pkg, "calls": calls, "results": results, "final": final, "roots": roots},
            "replay": replay_script}


def replay_script(ctx, prop, ob, res):
    sc = ob.info["script"]
    p = ctx.prog
    model = res.model
    if model is None:
        return {"status": "unconfirmed", "reason": "no model"}
    gen = GoGen(ctx, sc["pkg"])
    pre, w = sc["pre"], sc["world"]
    roots = list(sc["roots"])
    try:
        inputs = build_state(gen, model, pre, roots, w)
    except ValueError as ex:
        return {"status": "unconfirmed", "reason": str(ex)}
    body = ["objs := map[string]reflect.Value{}"] + gen.lines + ["out := map[string]interface{}{}", "func() {",
            "\tdefer func() { if r := recover(); r != nil { out[\"panic\"] = fmt.Sprint(r) } }()"]
    for ci, (fn, args) in enumerate(sc["calls"]):
        f = p.func(fn)
        exprs = []
        for prm, a in zip(f.params, args):
            if isinstance(a, Ptr):
                exprs.append('objs[%s].Interface().(%s)' % (json.dumps(a.obj), gen.tyexpr(prm["t"])))
            elif is_z3(a):
                x = mval(model, a)
                inputs["call%d.%s" % (ci, prm["name"])] = x
                exprs.append(go_scalar(gen, prm["t"], x))
            else:
                return {"status": "unconfirmed", "reason": "argument kind %s" % type(a).__name__}
        nm = f.d["short"]
        call = "%s.%s(%s)" % (exprs[0], nm, ", ".join(exprs[1:])) if f.d.get("hasrecv") else "%s(%s)" % (nm, ", ".join(exprs))
        if f.results:
            body.append("\tr%d := %s" % (ci, call))
            body.append('\tvrDump(out, "call%d", reflect.ValueOf(&r%d).Elem(), nil, 1)' % (ci, ci))
        else:
            body.append("\t" + call)
    body += ["}()", "for id, o := range objs { vrDump(out, id, o.Elem(), nil, 0) }", "b, _ := json.Marshal(out)",
             'os.WriteFile(os.Getenv("VERIF_REPLAY_OUT"), b, 0644)']
    imps = "\n".join('\t"%s"' % i for i in sorted(gen.imports))
    src = "package %s\n\nimport (\n%s\n)\n\nvar _ = math.Pi\nvar _ = hex.EncodeToString\nvar _ unsafe.Pointer\n%s\nfunc TestVerifReplay(t *testing.T) {\n\t%s\n}\n" % (
        sc["pkg"].rsplit("/", 1)[-1], imps, HELPERS, "\n\t".join(body))
    rc, log, out = run_go_test(ctx, sc["pkg"], src)
    small = {k: v for k, v in inputs.items() if not isinstance(v, dict)}
    rep = {"inputs": {k: small[k] for k in list(small)[:80]}, "go_rc": rc, "function": " ; ".join(c[0] for c in sc["calls"])}
    if out is None:
        rep.update(status="error", log=log[-1500:])
        return rep
    rep["real"] = {k: v for k, v in out.items() if k.startswith("call") or k == "panic"}
    if "panic" in out:
        rep.update(status="confirmed", reason="the real code panicked: %s" % out["panic"])
        return rep
    pred = {}
    for ci, rv in enumerate(sc["results"]):
        if is_z3(rv) and not mentions_havoc(rv):
            pred["call%d" % ci] = mval(model, rv)
    final = sc["final"]
    if isinstance(final, list):
        # several outcomes: the one whose path condition the model satisfies
        pick = None
        for cand in final:
            try:
                if z3.is_true(model.eval(cand.pcond(), model_completion=True)):
                    pick = cand
                    break
            except z3.Z3Exception:
                pass
        final = pick
    if final is not None:
        for oid in list(final.heap.keys()):
            if oid in pre.heap and final.otype.get(oid) is not None and str(oid) in {k.split(".")[0] for k in out}:
                predicted_leaves(model, final, oid, final.otype[oid], p, str(oid), pred)
    diffs = {k: {"engine": v if not isinstance(v, str) else v[:40], "real": out[k] if not isinstance(out[k], str) else out[k][:40]}
             for k, v in pred.items() if k in out and out[k] != v}
    rep["engine"] = {k: v for k, v in pred.items() if k.startswith("call")}
    rep["compared_locations"] = len([k for k in pred if k in out])
    ext = sorted({d.name() for d in model.decls() if d.name().startswith("external.")})
    if diffs and ext:
        # results of functions outside the exported program are unconstrained symbols: the model is not a concrete input
        rep.update(status="unconfirmed", diffs=dict(list(diffs.items())[:10]),
                   reason="the failing path calls unmodelled external function(s); the model is not a concrete input")
    elif diffs:
        rep.update(status="engine-disagreement", diffs=dict(list(diffs.items())[:10]))
    elif rep["compared_locations"] == 0:
        rep.update(status="unconfirmed", reason="nothing to compare")
    else:
        rep.update(status="confirmed")
    return rep
