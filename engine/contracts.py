"""Contract files (structured //@ comments kept in /repo/gameboy/<pkg>/contracts_verif.go behind the build
tag `verif`), their application at call sites (modular verification) and loop cutting at invariants."""
import os, re, glob
import z3
from . import vsl
from .vsl import TV, SpecError, BOOL, UNT, INT
from .core import (Ptr, NIL, SliceV, NILSLICE, Closure, Iface, StructV, ArrV, ZArr, TupleV, ChanV, StrV, Opaque,
                   Unsupported, concrete_int, concrete_bool, idx_term, is_z3, BV64, State)
from .prog import MOD, GB, short

KEYWORDS = ("func", "requires", "ensures", "assigns", "pred", "def", "loop", "invariant", "decreases", "panics",
            "exits", "inline", "trusted", "let", "calls", "note", "modular", "typeinv")


class Clause:
    def __init__(self, kind, label, text, ast, line):
        self.kind, self.label, self.text, self.ast, self.line = kind, label, text, ast, line


class Contract:
    def __init__(self, fn, short_name, file):
        self.fn = fn
        self.short = short_name
        self.file = file
        self.requires = []
        self.ensures = []
        self.assigns = None     # list of asts, [] for `assigns nothing`, None when absent
        self.loops = {}         # ordinal -> dict(invariant=[Clause], assigns=[ast], decreases=ast)
        self.lets = {}
        self.panics_allowed = False
        self.exits_allowed = False
        self.inline = False
        self.trusted = False
        self.notes = []
        self.raw = []


def split_top(s):
    parts, depth, cur = [], 0, ""
    for ch in s:
        if ch in "([{":
            depth += 1
        elif ch in ")]}":
            depth -= 1
        if ch == "," and depth == 0:
            parts.append(cur.strip())
            cur = ""
        else:
            cur += ch
    if cur.strip():
        parts.append(cur.strip())
    return parts


LABEL = re.compile(r"^([A-Za-z][\w-]*):\s+(.*)$", re.S)


def parse_contract_file(path, pkgpath, contracts, defs):
    """parse one contracts_verif.go; fills contracts{fn full name -> Contract} and defs (pred/def)"""
    lines = []
    with open(path) as f:
        for ln, raw in enumerate(f, 1):
            s = raw.strip()
            if s.startswith("//@"):
                lines.append((ln, s[3:]))
    # join continuation lines
    items = []
    for ln, s in lines:
        st = s.strip()
        if not st:
            continue
        first = st.split(None, 1)[0]
        if first in KEYWORDS:
            items.append([ln, st])
        else:
            if not items:
                raise SpecError("%s:%d: continuation without clause" % (path, ln))
            items[-1][1] += " " + st
    cur = None
    curloop = None
    for ln, st in items:
        kw, _, rest = st.partition(" ")
        rest = rest.strip()
        try:
            if kw == "func":
                name = rest.split()[0]
                if name.startswith("(*"):
                    m = re.match(r"\(\*([\w]+)\)\.(.+)$", name)
                    full = "(*%s.%s).%s" % (pkgpath, m.group(1), m.group(2))
                elif name.startswith("("):
                    m = re.match(r"\(([\w]+)\)\.(.+)$", name)
                    full = "(%s.%s).%s" % (pkgpath, m.group(1), m.group(2))
                else:
                    full = "%s.%s" % (pkgpath, name)
                cur = Contract(full, short(full), path)
                cur.line = ln
                contracts[full] = cur
                curloop = None
            elif kw in ("pred", "def"):
                n, ps, r, b = vsl.parse_def(st)
                defs[n] = (ps, r, b, None)
            elif kw == "typeinv":
                # typeinv *T <expr over self>: representation invariant of T, assumed at the entry of every method with receiver *T
                # (object-invariant methodology: established by the constructors and re-established by every method that writes the
                # fields it mentions - those are ordinary ensures/assigns obligations)
                tname, _, ex = rest.partition(" ")
                key = "(*%s.%s)" % (pkgpath, tname.lstrip("*"))
                defs.setdefault("$typeinv", {}).setdefault(key, []).append(vsl.parse(ex.strip()))
            elif kw == "loop":
                curloop = int(rest.lstrip("#").split()[0])
                cur.loops[curloop] = {"invariant": [], "assigns": [], "decreases": None}
            elif kw in ("requires", "ensures", "invariant"):
                m = LABEL.match(rest)
                label, text = (m.group(1), m.group(2)) if m else (None, rest)
                cl = Clause(kw, label, text, vsl.parse(text), ln)
                if kw == "requires":
                    cur.requires.append(cl)
                elif kw == "ensures":
                    cur.ensures.append(cl)
                else:
                    cur.loops[curloop]["invariant"].append(cl)
            elif kw == "assigns":
                asts = [] if rest == "nothing" else [vsl.parse(x) for x in split_top(rest)]
                if curloop is not None:
                    cur.loops[curloop]["assigns"] = asts
                else:
                    cur.assigns = (cur.assigns or []) + asts
            elif kw == "decreases":
                cur.loops[curloop]["decreases"] = vsl.parse(rest)
            elif kw == "let":
                n, _, ex = rest.partition("=")
                cur.lets[n.strip()] = vsl.parse(ex.strip())
            elif kw == "panics":
                cur.panics_allowed = rest.startswith("allowed")
            elif kw == "exits":
                cur.exits_allowed = rest.startswith("allowed")
            elif kw == "inline":
                cur.inline = True
            elif kw == "trusted":
                cur.trusted = True
            elif kw in ("note", "calls", "modular"):
                if cur is not None:
                    cur.notes.append(st)
            if cur is not None and kw not in ("pred", "def"):
                cur.raw.append(st)
        except SpecError as ex:
            raise SpecError("%s:%d: %s" % (path, ln, ex))


def load_contracts(repo, specdir):
    contracts, defs = {}, {}
    for path in sorted(glob.glob(os.path.join(specdir, "*.vsl"))):
        vsl.load_defs(path, defs)
    files = []
    for path in sorted(glob.glob(os.path.join(repo, "gameboy", "*", "contracts_verif.go")) +
                       glob.glob(os.path.join(repo, "gameboy", "contracts_verif.go"))):
        rel = os.path.relpath(os.path.dirname(path), repo)
        pkgpath = MOD + "/" + rel
        parse_contract_file(path, pkgpath, contracts, defs)
        files.append(path)
    return contracts, defs, files


class ContractEval:
    """glue between the symbolic executor and the contract language (engine.ev)"""

    def __init__(self, engine, contracts, defs):
        self.e = engine
        self.contracts = contracts
        self.defs = defs
        self.ev = vsl.Evaluator(engine, defs)
        self.ghost_cancelled = None

    # ---- environments
    def param_env(self, f, args, contract=None):
        env = {}
        for prm, a in zip(f.params, args):
            env[prm["name"]] = TV(a, self.ev.ty_of(prm["t"]), None)
        if contract is not None:
            for n, ast in contract.lets.items():
                env[n] = self._lazy(ast, env)
        return env

    def _lazy(self, ast, env):
        def thunk(cur, old, _ast=ast, _env=env):
            return self.ev.eval(_ast, _env, cur, old)
        return thunk

    def result_env(self, env, f, val):
        env = dict(env)
        if len(f.results) == 1:
            env["result"] = TV(val, self.ev.ty_of(f.results[0]))
        elif len(f.results) > 1 and isinstance(val, TupleV):
            for i, (t, v) in enumerate(zip(f.results, val.items)):
                env["result%d" % i] = TV(v, self.ev.ty_of(t))
        return env

    def holds(self, clause, env, cur, old):
        return self.ev.as_bool(self.ev.eval(clause.ast, env, cur, old), clause.text)

    # ---- modular call
    def apply_contract(self, eng, st, c, args, site):
        f = eng.p.funcs[c.fn]
        env = self.param_env(f, args, c)
        for i, r in enumerate(c.requires):
            cond = self.holds(r, env, st, st)
            eng.oblige(st, "requires", "%s#%s@%s" % (c.short, r.label or i, site), z3.Not(cond),
                       {"callee": c.short, "clause": r.text})
        old = st.fork()
        if c.assigns is None:
            raise Unsupported("modular call of %s whose contract has no assigns clause" % c.short)
        for a in c.assigns:
            try:
                lvs = self.ev.lvalues(a, env, old)
            except SpecError as ex:
                if "no field" not in str(ex) and "nil deref" not in str(ex):
                    raise
                continue
            for lv in lvs:
                self.havoc_loc(eng, st, lv, c.short)
        val = None
        if len(f.results) == 1:
            val = self.fresh_result(eng, f.results[0], c.short)
        elif len(f.results) > 1:
            val = TupleV([self.fresh_result(eng, t, c.short) for t in f.results])
        env2 = self.result_env(env, f, val)
        for en in c.ensures:
            try:
                st.assume(self.holds(en, env2, st, old))
            except SpecError as ex:
                if "no field" not in str(ex) and "different sorts" not in str(ex) and "width mismatch" not in str(ex):
                    raise   # a clause about state that does not exist (or has another type) gives the caller nothing to assume
        return [(st, val)]

    def fresh_result(self, eng, tid, nm):
        k = eng.p.kind(tid)
        if k in ("basic", "array", "struct"):
            return eng.fresh(tid, nm + ".result")
        raise Unsupported("modular call returning %s (%s)" % (k, nm))

    def havoc_loc(self, eng, st, lv, nm):
        if lv[0] == "loc":
            _, ptr, ty = lv
            cur = eng.load(st, ptr)
            eng.store(st, ptr, self.havoc_val(eng, cur, nm))
        elif lv[0] == "range":
            _, ptr, lo, hi, ty = lv
            cur = eng.load(st, ptr)
            if isinstance(cur, ZArr):
                new = z3.Const(eng.fresh_name(nm + ".havoc"), cur.term.sort())
                k = z3.BitVec(eng.fresh_name("k"), 64)
                st.pc.append(z3.ForAll([k], z3.Implies(z3.Not(z3.And(lo <= k, k < hi)), z3.Select(new, k) == z3.Select(cur.term, k))))
                eng.store(st, ptr, ZArr(new, cur.et, cur.n))
            elif isinstance(cur, ArrV):
                items = []
                for i, it in enumerate(cur.items):
                    inr = z3.And(lo <= i, z3.BitVecVal(i, 64) < hi)
                    items.append(eng.merge_val(inr, self.havoc_val(eng, it, nm), it))
                eng.store(st, ptr, ArrV(items))
            else:
                raise Unsupported("range havoc on %r" % (cur,))

    def havoc_val(self, eng, cur, nm):
        if is_z3(cur):
            return z3.Const(eng.fresh_name(nm + ".havoc"), cur.sort())
        if isinstance(cur, ZArr):
            return ZArr(z3.Const(eng.fresh_name(nm + ".havoc"), cur.term.sort()), cur.et, cur.n)
        if isinstance(cur, (StructV, ArrV)):
            return type(cur)([self.havoc_val(eng, x, nm) for x in cur.items])
        return cur  # pointers, closures, slices headers: not havocked (structure is concrete)

    # ---- loops
    def loop_info(self, eng, f):
        c = self.contracts.get(f.name)
        if c is None or not c.loops:
            return {}
        rpo, back, headers = f.order()
        info = {}
        for ordinal, h in enumerate(sorted(headers)):
            if ordinal in c.loops:
                d = dict(c.loops[ordinal])
                d["ordinal"] = ordinal
                d["contract"] = c
                info[h] = d
        if len(info) != len(headers):
            return {}
        return info

    def loop_env(self, eng, f, b, st, regs, args, fvs):
        c = self.contracts.get(f.name)
        env = self.param_env(f, args, c)
        # all phis and named values: map source variable names (phi comments) to registers
        for blk in f.blocks:
            for ins in blk["instrs"]:
                if ins["op"] == "Phi" and ins.get("comment") and ins["n"] in regs:
                    env.setdefault(ins["comment"], TV(regs[ins["n"]], self.ev.ty_of(ins["t"])))
        for ins in b["instrs"]:
            if ins["op"] == "Phi" and ins.get("comment") and ins["n"] in regs:
                env[ins["comment"]] = TV(regs[ins["n"]], self.ev.ty_of(ins["t"]))
        # `for i := range s`: go/ssa names the counter "rangeindex" (last index processed, -1 at first); the source key
        # i at the loop head is rangeindex+1 = iterations completed, which is what `i` means at the head of the
        # three-clause form - so an invariant over `i` reads the same for both spellings of the loop
        keys = f.d.get("rangekeys") or []
        rloops = [blk for blk in f.blocks if (blk.get("comment") or "").startswith("range") and (blk.get("comment") or "").endswith(".loop")]
        if len(keys) == len(rloops):
            for key, blk in zip(keys, rloops):
                if not key or blk.get("comment") != "rangeindex.loop":
                    continue
                for ins in blk["instrs"]:
                    if ins["op"] == "Phi" and ins.get("comment") == "rangeindex" and ins["n"] in regs and key not in env:
                        v = regs[ins["n"]]
                        env[key] = TV(v + 1, self.ev.ty_of(ins["t"]))
        # values that are not phis have no source name in go/ssa: the k-th make([]T) of the function is $make<k>
        k = 0
        for blk in f.blocks:
            for ins in blk["instrs"]:
                if ins["op"] == "MakeSlice":
                    if ins["n"] in regs:
                        env.setdefault("$make%d" % k, TV(regs[ins["n"]], self.ev.ty_of(ins["t"])))
                    k += 1
        for n, v in regs.items():
            env.setdefault("$" + n, TV(v, None))
        return env

    def loop_check(self, eng, f, b, st, regs, args, fvs, info, phase):
        env = self.loop_env(eng, f, b, st, regs, args, fvs)
        old = info.get("entry_state", st)
        for i, inv in enumerate(info["invariant"]):
            cond = self.holds(inv, env, st, old)
            eng.oblige(st, "loop-%s" % phase, "%s#loop%d:%s" % (f.short, info["ordinal"], inv.label or i), z3.Not(cond),
                       {"clause": inv.text})
        if phase == "preserve":
            # frame of the loop body: nothing outside loop-assigns changed since the head
            snaps = info.get("snapshots", [])
            if snaps:
                snap = snaps[-1]
                from .verify import frame_obligations
                frame_obligations(eng, self, snap["state"], st, snap["lvs"], "%s#loop%d" % (f.short, info["ordinal"]),
                                  only_objs=set(info.get("entry_objs") or snap["state"].heap.keys()))
            if info.get("decreases") is not None and snaps:
                snap = snaps[-1]
                d0 = snap["measure"]
                d1 = self.ev.conv(self.ev.eval(info["decreases"], env, st, old), INT).v
                eng.oblige(st, "loop-decreases", "%s#loop%d" % (f.short, info["ordinal"]), z3.Not(z3.And(d1 < d0, d0 >= 0)))

    def loop_havoc(self, eng, f, b, st, regs, args, fvs, info):
        env = self.loop_env(eng, f, b, st, regs, args, fvs)
        info["entry_state"] = st.fork()
        lvs = []
        for a in info["assigns"]:
            lvs.extend(self.ev.lvalues(a, env, st))
        for lv in lvs:
            self.havoc_loc(eng, st, lv, f.short + ".loop")
        # objects allocated by this activation before the loop (locals, fresh slices) may be written by the body
        entry = info.get("entry_objs")
        if entry is not None:
            for oid in list(st.heap.keys()):
                if oid not in entry and not str(oid).startswith("g:"):
                    st.heap[oid] = self.havoc_val(eng, st.heap[oid], f.short + ".local")
        # ghost variables (tick counters, flags) advance in the body: havoc them too, the invariant pins them down
        for gk, gv in list(st.ghost.items()):
            if is_z3(gv):
                st.ghost[gk] = z3.Const(eng.fresh_name("ghost." + gk), gv.sort())
        for ins in b["instrs"]:
            if ins["op"] != "Phi":
                break
            v = regs[ins["n"]]
            regs[ins["n"]] = self.havoc_reg(eng, st, v, ins["t"], f.short + "." + (ins.get("comment") or ins["n"]))
        snap = {"state": st.fork(), "lvs": lvs}
        if info.get("decreases") is not None:
            env2 = self.loop_env(eng, f, b, st, regs, args, fvs)
            snap["measure"] = self.ev.conv(self.ev.eval(info["decreases"], env2, st, st), INT).v
        return snap

    def havoc_reg(self, eng, st, v, tid, nm):
        if is_z3(v):
            return z3.Const(eng.fresh_name(nm), v.sort())
        if isinstance(v, SliceV):
            et = eng.p.under(tid)["elem"]
            srt = z3.ArraySort(BV64, eng.sort_of(et))
            oid = eng.new_obj(st, ZArr(z3.Const(eng.fresh_name(nm + ".data"), srt), et, None))
            ln = z3.BitVec(eng.fresh_name(nm + ".len"), 64)
            st.pc.append(ln >= 0)
            return SliceV(oid, (), 0, ln, ln)
        if isinstance(v, (StructV, ArrV)):
            return self.havoc_val(eng, v, nm)
        return v

    def loop_assume(self, eng, f, b, st, regs, args, fvs, info):
        env = self.loop_env(eng, f, b, st, regs, args, fvs)
        for inv in info["invariant"]:
            st.assume(self.holds(inv, env, st, info["entry_state"]))

    # ---- select (only the non-blocking `select { case <-ctx.Done(): ... default: ... }` of Run)
    def select_op(self, eng, fr, ins, site):
        if ins["blocking"] or len(ins["states"]) != 1:
            raise Unsupported("select shape at " + site)
        ch = eng.operand(fr, ins["states"][0]["chan"])
        ready = fr.st.ghost.get("cancelled")
        if ready is None:
            raise Unsupported("select without ghost 'cancelled'")
        # index 0 if the Done channel is ready, else -1 (default)
        idx = z3.If(ready, z3.BitVecVal(0, 64), z3.BitVecVal(-1, 64))
        fr.regs[ins["n"]] = TupleV([idx, ready, Opaque("recv")])
