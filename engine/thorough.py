"""Extras of the thorough tier: (T1) summary of the independent decisions of the three external solvers on every discharged
obligation, (T3) the must-fail corpus of the property (selftest/mutants + seeded changes) applied to a scratch copy of /repo
under /var/tmp (removed afterwards) - each must make the quick check report a violation - and the must-pass corpus
(selftest/benign), which must stay quiet."""
import os, json, subprocess, shutil, tempfile, glob, time

ROOT = os.path.dirname(os.path.dirname(os.path.abspath(__file__)))


def solver_agreement(outs):
    agg = {}
    bad = []
    for o in outs:
        for r in o["results"]:
            for name, (st, secs) in (r.get("agree") or {}).items():
                a = agg.setdefault(name, {"unsat": 0, "sat": 0, "unknown": 0, "time_s": 0.0})
                a[st if st in a else "unknown"] += 1
                a["time_s"] = round(a["time_s"] + secs, 2)
                if st == "sat":
                    bad.append((r["obligation"], name))
    return agg, bad


def scratch_copy(repo):
    d = tempfile.mkdtemp(prefix="verif-thorough-", dir=os.environ.get("VERIF_SCRATCH", "/var/tmp"))
    dst = os.path.join(d, "repo")
    subprocess.run(["rsync", "-a", "--exclude", ".git", "--exclude", "gameboy/testdata", "--exclude", "screenshots", repo + "/", dst + "/"], check=True)
    return d, dst


def run_patch(prop, patch, scratch_root, repo_copy):
    work = os.path.join(scratch_root, "work")
    if os.path.exists(work):
        shutil.rmtree(work)
    shutil.copytree(repo_copy, work)
    r = subprocess.run(["patch", "-p1", "-s", "-i", patch], cwd=work, capture_output=True, text=True)
    if r.returncode != 0:
        return "stale"
    env = dict(os.environ, VERIF_REPO=work, VERIF_NESTED="1", VERIF_EVIDENCE_DIR=os.path.join(scratch_root, "evidence"), VERIF_TIER="quick")
    env.pop("VERIF_ONLY", None)
    b = subprocess.run(["go", "build", "./gameboy/cpu/", "./gameboy/memory/", "./gameboy/timer/", "./gameboy/ppu/", "./gameboy/oam/", "./gameboy/audio/",
                        "./gameboy/controller/", "./gameboy/serial/", "./gameboy/interrupts/"], cwd=work, env=env, capture_output=True, text=True)
    if b.returncode != 0:
        return "does-not-build"
    r = subprocess.run([os.path.join(ROOT, "check"), prop, "--tier", "quick"], cwd=ROOT, env=env, capture_output=True, text=True)
    if r.returncode == 1 and "VIOLATION" in r.stdout:
        return "detected"
    if r.returncode == 0:
        return "quiet"
    return "broken"


def extras(ctx, prop, outs, corpus=True):
    t0 = time.time()
    agree, bad = solver_agreement(outs)
    info = {"solver_agreement": agree, "solver_disagreements": bad}
    cs = [o["cosim"] for o in outs if o.get("cosim")]
    if cs:
        info["cosimulation"] = {"tasks_sampled": len([c for c in cs if not c.get("skipped")]), "tasks_skipped": len([c for c in cs if c.get("skipped")]),
                                "samples": sum(c["samples"] for c in cs), "agree": sum(c["agree"] for c in cs),
                                "not_comparable": sum(c["not_comparable"] for c in cs),
                                "wrong_prediction_canaries": sum(c.get("canaries", 0) for c in cs),
                                "wrong_prediction_canaries_caught": sum(c.get("canaries_caught", 0) for c in cs),
                                "disagreements": [dict(d, task=c["task"]) for c in cs for d in c["disagree"]][:10],
                                "skipped_why": sorted({c["skipped"] for c in cs if c.get("skipped")})[:6],
                                "not_comparable_why": sorted({r for c in cs for r in c.get("reasons", [])})[:6]}
    if not corpus:
        return info
    must_fail, must_pass = [], []
    idx = {}
    p = os.path.join(ROOT, "selftest", "mutants", "index.json")
    if os.path.exists(p):
        idx = json.load(open(p))
    for name, props in sorted(idx.items()):
        if prop in props:
            must_fail.append((name, os.path.join(ROOT, "selftest", "mutants", name + ".patch")))
    for d in sorted(glob.glob(os.path.join(ROOT, "seeded", prop + "-*"))):
        must_fail.append(("seeded/" + os.path.basename(d), os.path.join(d, "patch.diff")))
    p = os.path.join(ROOT, "selftest", "benign", "index.json")
    if os.path.exists(p):
        for name, props in sorted(json.load(open(p)).items()):
            if prop in props:
                must_pass.append((name, os.path.join(ROOT, "selftest", "benign", name + ".patch")))
    # a bounded, seed-independent selection keeps the thorough run within tens of minutes: seeded changes first
    cap = int(os.environ.get("VERIF_CORPUS_MAX", "8"))
    must_fail.sort(key=lambda x: (not x[0].startswith("seeded/"), x[0]))
    skipped = [n for (n, _) in must_fail[cap:]]
    must_fail = must_fail[:cap]
    must_pass = must_pass[:max(2, cap // 4)]
    results = {}
    if must_fail or must_pass:
        root, copy = scratch_copy(ctx.repo)
        try:
            for name, patch in must_fail:
                results[name] = run_patch(prop, patch, root, copy)
            for name, patch in must_pass:
                results["benign/" + name] = run_patch(prop, patch, root, copy)
        finally:
            shutil.rmtree(root, ignore_errors=True)
    killed = sum(1 for (n, _) in must_fail if results.get(n) == "detected")
    quiet = sum(1 for (n, _) in must_pass if results.get("benign/" + n) == "quiet")
    info["mutants"] = {"killed": killed, "total": len(must_fail), "benign_quiet": quiet, "benign_total": len(must_pass),
                       "not_detected": [n for (n, _) in must_fail if results.get(n) != "detected"],
                       "false_alarms": [n for (n, _) in must_pass if results.get("benign/" + n) != "quiet"], "not_run_this_time": skipped, "wall_s": round(time.time() - t0, 1)}
    return info
