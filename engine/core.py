"""Symbolic execution of go/ssa (strongest postcondition) over a heap with concrete structure and
symbolic scalars.  Integers are bit-vectors of their Go width; float32 is SMT FloatingPoint(8,24)."""
import z3
from .prog import Prog, short

BV64 = z3.BitVecSort(64)
BV8 = z3.BitVecSort(8)
F32 = z3.Float32()
RNE = z3.RNE()


class Unsupported(Exception):
    pass


class Unmergeable(Exception):
    pass


# ------------------------------------------------------------------ values
class Ptr:
    __slots__ = ("obj", "path")

    def __init__(self, obj, path=()):
        self.obj = obj
        self.path = path

    def __repr__(self):
        return "Ptr(%r,%r)" % (self.obj, self.path)

    def same(self, o):
        return isinstance(o, Ptr) and self.obj == o.obj and len(self.path) == len(o.path) and all(
            step_eq(a, b) for a, b in zip(self.path, o.path))


def step_eq(a, b):
    if isinstance(a, int) and isinstance(b, int):
        return a == b
    if isinstance(a, int) or isinstance(b, int):
        return False
    return a.eq(b)


NIL = Ptr(None, ())


class SliceV:
    __slots__ = ("obj", "path", "off", "len", "cap")

    def __init__(self, obj, path, off, ln, cap):
        self.obj, self.path, self.off, self.len, self.cap = obj, path, off, ln, cap

    def __repr__(self):
        return "Slice(%r,%r,off=%r,len=%r)" % (self.obj, self.path, self.off, self.len)


NILSLICE = SliceV(None, (), 0, 0, 0)


class Closure:
    __slots__ = ("fn", "bind")

    def __init__(self, fn, bind=()):
        self.fn, self.bind = fn, bind

    def __repr__(self):
        return "Closure(%s,%r)" % (short(self.fn) if self.fn else None, self.bind)


NILFUNC = Closure(None, ())


class Iface:
    __slots__ = ("t", "v")

    def __init__(self, t, v):
        self.t, self.v = t, v

    def __repr__(self):
        return "Iface(%r,%r)" % (self.t, self.v)


NILIFACE = Iface(None, None)


class StructV:
    __slots__ = ("items",)

    def __init__(self, items):
        self.items = tuple(items)

    def __repr__(self):
        return "Struct%r" % (self.items,)


class ArrV:
    __slots__ = ("items",)

    def __init__(self, items):
        self.items = tuple(items)

    def __repr__(self):
        return "Arr[%d]" % len(self.items)


class ZArr:
    """array held as a z3 array term  BV64 -> elem ; elem is a scalar sort or (nested) array"""
    __slots__ = ("term", "et", "n")

    def __init__(self, term, et, n):
        self.term, self.et, self.n = term, et, n

    def __repr__(self):
        return "ZArr(%s)" % self.term.sort()


class TupleV:
    __slots__ = ("items",)

    def __init__(self, items):
        self.items = tuple(items)


class ChanV:
    __slots__ = ("id",)

    def __init__(self, id):
        self.id = id

    def __repr__(self):
        return "Chan(%r)" % (self.id,)


NILCHAN = ChanV(None)


class StrV:
    __slots__ = ("s",)

    def __init__(self, s):
        self.s = s

    def __repr__(self):
        return "Str(%r)" % (self.s,)


class Opaque:
    """value of something outside the modelled subset (only tolerated in lenient mode)"""
    __slots__ = ("why",)

    def __init__(self, why=""):
        self.why = why

    def __repr__(self):
        return "Opaque(%s)" % self.why


def is_z3(v):
    return isinstance(v, z3.ExprRef)


def concrete_int(v, signed=False):
    """python int if the bit-vector term is a numeral after simplification, else None"""
    if isinstance(v, int):
        return v
    if not is_z3(v):
        return None
    if not z3.is_bv_value(v):
        v = z3.simplify(v)
        if not z3.is_bv_value(v):
            return None
    return v.as_signed_long() if signed else v.as_long()


def concrete_bool(v):
    if isinstance(v, bool):
        return v
    if z3.is_true(v):
        return True
    if z3.is_false(v):
        return False
    v = z3.simplify(v)
    if z3.is_true(v):
        return True
    if z3.is_false(v):
        return False
    return None


def to64(v, signed):
    """extend an index term to 64 bits"""
    if isinstance(v, int):
        return z3.BitVecVal(v, 64)
    w = v.size()
    if w == 64:
        return v
    if w > 64:
        return z3.Extract(63, 0, v)
    return z3.SignExt(64 - w, v) if signed else z3.ZeroExt(64 - w, v)


def idx_add(a, b):
    if isinstance(a, int) and isinstance(b, int):
        return a + b
    if isinstance(a, int):
        if a == 0:
            return b
        a = z3.BitVecVal(a, 64)
    if isinstance(b, int):
        if b == 0:
            return a
        b = z3.BitVecVal(b, 64)
    r = z3.simplify(a + b)
    c = concrete_int(r)
    return c if c is not None and c < (1 << 62) else r


def idx_sub(a, b):
    if isinstance(a, int) and isinstance(b, int):
        return a - b
    if isinstance(a, int):
        a = z3.BitVecVal(a, 64)
    if isinstance(b, int):
        if b == 0:
            return a
        b = z3.BitVecVal(b, 64)
    r = z3.simplify(a - b)
    c = concrete_int(r)
    return c if c is not None and c < (1 << 62) else r


def idx_term(a):
    return z3.BitVecVal(a, 64) if isinstance(a, int) else a


# ------------------------------------------------------------------ state
class State:
    __slots__ = ("heap", "pc", "trace", "ghost", "otype")

    def __init__(self):
        self.heap = {}
        self.pc = []
        self.trace = ()
        self.ghost = {}
        self.otype = {}

    def fork(self):
        s = State()
        s.heap = dict(self.heap)
        s.pc = list(self.pc)
        s.trace = self.trace
        s.ghost = dict(self.ghost)
        s.otype = self.otype  # shared, append-only
        return s

    def assume(self, c):
        cb = concrete_bool(c)
        if cb is True:
            return
        self.pc.append(c)

    def pcond(self):
        return z3.And(*self.pc) if self.pc else z3.BoolVal(True)


class Terminal:
    def __init__(self, kind, state, site, info=None):
        self.kind, self.state, self.site, self.info = kind, state, site, info


class Oblig:
    """a proof obligation: `cond` must be unsatisfiable together with nothing else (pc is folded in)"""

    def __init__(self, name, kind, viol, state, site="", info=None):
        self.name, self.kind, self.viol, self.state, self.site, self.info = name, kind, viol, state, site, info or {}


class Engine:
    def __init__(self, prog: Prog):
        self.p = prog
        self.counter = 0
        self.objcounter = 0
        self.obligs = []
        self.terminals = []
        self.contracts = {}      # fn full name -> contract object (engine.contracts.Contract)
        self.modular = set()     # fn names to be replaced by their contract at call sites
        self.abstract = {}       # fn full/short name -> python handler(engine, state, args, instr) -> list[(state, value)]
        self.globals_obj = {}    # global name -> obj id
        self.global_init = {}    # obj id -> initial value (after package init)
        self.lenient = False
        self.max_depth = 60
        self.depth = 0
        self.feas_solver = None
        self.check_feas = True
        self.stats = {"instrs": 0, "calls": 0, "merges": 0, "forks": 0, "inlined": set(), "modular_calls": set(),
                      "abstracted": set(), "feas_checks": 0}
        self.site_prefix = ""
        self.ev = None           # contract expression evaluator hook (set by verify)
        self.nopanic_collect = True
        self.allow_panic_sites = None  # callable(site)->bool
        self.record_trivial = {"ensures", "requires", "loop-entry", "loop-preserve", "lemma"}

    # -------- fresh symbols / zero values
    def fresh_name(self, base):
        self.counter += 1
        return "%s!%d" % (base, self.counter)

    def new_obj(self, st, val, tid=None, label=None):
        self.objcounter += 1
        oid = label if label is not None else "o%d" % self.objcounter
        if oid in st.heap:
            oid = "%s#%d" % (oid, self.objcounter)
        st.heap[oid] = val
        st.otype[oid] = tid
        return oid

    def sort_of(self, tid):
        b = self.p.basic(tid)
        if b is None:
            k = self.p.kind(tid)
            if k == "array":
                u = self.p.under(tid)
                return z3.ArraySort(BV64, self.sort_of(u["elem"]))
            raise Unsupported("sort_of %s" % self.p.tname(tid))
        if b == "bool":
            return z3.BoolSort()
        if b == "float32":
            return F32
        if b == "float64":
            return z3.Float64()
        if b in ("string",):
            raise Unsupported("string sort")
        return z3.BitVecSort(self.p.width(tid))

    def big_array(self, tid):
        u = self.p.under(tid)
        ek = self.p.kind(u["elem"])
        if ek == "basic":
            return u["len"] > 64
        if ek == "array":
            return True
        return False

    def zero(self, tid):
        p = self.p
        k = p.kind(tid)
        if k == "basic":
            b = p.basic(tid)
            if b == "bool":
                return z3.BoolVal(False)
            if b == "float32":
                return z3.FPVal(0.0, F32)
            if b == "float64":
                return z3.FPVal(0.0, z3.Float64())
            if b == "string":
                return StrV("")
            if b == "Pointer":
                return NIL
            return z3.BitVecVal(0, p.width(tid))
        if k == "ptr":
            return NIL
        if k == "slice":
            return NILSLICE
        if k == "func":
            return NILFUNC
        if k == "iface":
            return NILIFACE
        if k == "chan":
            return NILCHAN
        if k == "map":
            return Opaque("map")
        if k == "struct":
            return StructV([self.zero(f["t"]) for f in p.struct_fields(tid)])
        if k == "array":
            u = p.under(tid)
            if self.big_array(tid):
                return ZArr(self.zero_zarr(u["elem"]), u["elem"], u["len"])
            z = self.zero(u["elem"])
            return ArrV([z] * u["len"])
        raise Unsupported("zero %s" % k)

    def zero_zarr(self, et):
        """constant-zero z3 array with element type et"""
        if self.p.kind(et) == "array":
            u = self.p.under(et)
            inner = self.zero_zarr(u["elem"])
            return z3.K(BV64, inner)
        z = self.zero(et)
        return z3.K(BV64, z)

    def fresh(self, tid, name):
        """fresh symbolic value of a *scalar or array-of-scalar* type"""
        p = self.p
        k = p.kind(tid)
        if k == "basic":
            b = p.basic(tid)
            nm = self.fresh_name(name)
            if b == "bool":
                return z3.Bool(nm)
            if b == "float32":
                return z3.FP(nm, F32)
            if b == "string":
                return StrV("?")
            return z3.BitVec(nm, p.width(tid))
        if k == "struct":
            return StructV([self.fresh(f["t"], name + "." + f["name"]) for f in p.struct_fields(tid)])
        if k == "array":
            u = p.under(tid)
            if self.big_array(tid):
                return ZArr(z3.Const(self.fresh_name(name), self.sort_of(tid)), u["elem"], u["len"])
            return ArrV([self.fresh(u["elem"], "%s[%d]" % (name, i)) for i in range(u["len"])])
        raise Unsupported("fresh %s (%s)" % (k, name))

    # -------- heap access
    def _get(self, val, path, tid_hint=None):
        for step in path:
            if isinstance(val, StructV):
                val = val.items[step]
            elif isinstance(val, ArrV):
                if isinstance(step, int):
                    if step >= len(val.items):
                        raise Unsupported("concrete index %d out of range %d" % (step, len(val.items)))
                    val = val.items[step]
                else:
                    val = self._ite_chain(val.items, step)
            elif isinstance(val, ZArr):
                e = z3.Select(val.term, idx_term(step))
                if self.p.kind(val.et) == "array":
                    u = self.p.under(val.et)
                    val = ZArr(e, u["elem"], u["len"])
                else:
                    val = e
            elif isinstance(val, Opaque):
                return val
            else:
                raise Unsupported("path step %r through %r" % (step, val))
        return val

    def _ite_chain(self, items, idx):
        n = len(items)
        res = items[n - 1]
        for i in range(n - 2, -1, -1):
            res = self.merge_val(idx == z3.BitVecVal(i, 64), items[i], res)
        return res

    def _set(self, val, path, new):
        if not path:
            return new
        step = path[0]
        if isinstance(val, StructV):
            items = list(val.items)
            items[step] = self._set(items[step], path[1:], new)
            return StructV(items)
        if isinstance(val, ArrV):
            if isinstance(step, int):
                items = list(val.items)
                items[step] = self._set(items[step], path[1:], new)
                return ArrV(items)
            items = []
            for i, it in enumerate(val.items):
                upd = self._set(it, path[1:], new)
                items.append(self.merge_val(step == z3.BitVecVal(i, 64), upd, it))
            return ArrV(items)
        if isinstance(val, ZArr):
            st = idx_term(step)
            if len(path) == 1:
                nv = new.term if isinstance(new, ZArr) else new
                return ZArr(z3.Store(val.term, st, nv), val.et, val.n)
            inner = self._get(val, (step,))
            upd = self._set(inner, path[1:], new)
            return ZArr(z3.Store(val.term, st, upd.term), val.et, val.n)
        if isinstance(val, Opaque):
            return val
        raise Unsupported("store step %r through %r" % (step, val))

    def load(self, st, ptr):
        if ptr.obj is None:
            raise Unsupported("load through nil (should have been caught)")
        return self._get(st.heap[ptr.obj], ptr.path)

    def store(self, st, ptr, val):
        st.heap[ptr.obj] = self._set(st.heap[ptr.obj], ptr.path, val)

    # -------- merging
    def merge_val(self, c, a, b):
        if a is b:
            return a
        if is_z3(a) and is_z3(b):
            if a.eq(b):
                return a
            if a.sort() != b.sort():
                raise Unmergeable("sorts")
            return z3.If(c, a, b)
        if type(a) is not type(b):
            raise Unmergeable("types %r %r" % (a, b))
        if isinstance(a, (StructV, ArrV, TupleV)):
            if len(a.items) != len(b.items):
                raise Unmergeable("len")
            return type(a)([self.merge_val(c, x, y) for x, y in zip(a.items, b.items)])
        if isinstance(a, ZArr):
            if a.term.eq(b.term):
                return a
            if a.term.sort() != b.term.sort():
                raise Unmergeable("zarr sort")
            return ZArr(z3.If(c, a.term, b.term), a.et, a.n)
        if isinstance(a, Ptr):
            if a.same(b):
                return a
            if a.obj == b.obj and a.obj is not None and len(a.path) == len(b.path):
                path = []
                for x, y in zip(a.path, b.path):
                    if step_eq(x, y):
                        path.append(x)
                    else:
                        path.append(z3.If(c, idx_term(x), idx_term(y)))
                return Ptr(a.obj, tuple(path))
            raise Unmergeable("ptr")
        if isinstance(a, SliceV):
            if a.obj == b.obj and len(a.path) == len(b.path) and all(step_eq(x, y) for x, y in zip(a.path, b.path)):
                def m(x, y):
                    if isinstance(x, int) and isinstance(y, int) and x == y:
                        return x
                    if is_z3(x) and is_z3(y) and x.eq(y):
                        return x
                    return z3.If(c, idx_term(x), idx_term(y))
                return SliceV(a.obj, a.path, m(a.off, b.off), m(a.len, b.len), m(a.cap, b.cap))
            raise Unmergeable("slice")
        if isinstance(a, Closure):
            if a.fn == b.fn and len(a.bind) == len(b.bind):
                return Closure(a.fn, tuple(self.merge_val(c, x, y) for x, y in zip(a.bind, b.bind)))
            raise Unmergeable("closure")
        if isinstance(a, Iface):
            if a.t == b.t:
                return Iface(a.t, self.merge_val(c, a.v, b.v) if a.t is not None else None)
            raise Unmergeable("iface")
        if isinstance(a, ChanV):
            if a.id == b.id:
                return a
            raise Unmergeable("chan")
        if isinstance(a, StrV):
            return a if a.s == b.s else StrV("?")
        if isinstance(a, Opaque):
            return a
        if a == b:
            return a
        raise Unmergeable("value %r %r" % (a, b))

    def try_merge(self, A, B):
        """merge two (state, regs, extra) triples reaching the same program point; None if not mergeable"""
        sa, ra, xa = A
        sb, rb, xb = B
        if len(sa.trace) != len(sb.trace):
            return None
        i = 0
        n = min(len(sa.pc), len(sb.pc))
        while i < n and sa.pc[i] is sb.pc[i]:
            i += 1
        ca = z3.And(*sa.pc[i:]) if len(sa.pc) - i != 1 else sa.pc[i]
        if len(sa.pc) == i:
            ca = z3.BoolVal(True)
        cb = z3.And(*sb.pc[i:]) if len(sb.pc) - i != 1 else sb.pc[i]
        if len(sb.pc) == i:
            cb = z3.BoolVal(True)
        try:
            heap = {}
            for k, va in sa.heap.items():
                if k in sb.heap:
                    vb = sb.heap[k]
                    heap[k] = va if va is vb else self.merge_val(ca, va, vb)
                else:
                    heap[k] = va
            for k, vb in sb.heap.items():
                if k not in heap:
                    heap[k] = vb
            trace = []
            for ea, eb in zip(sa.trace, sb.trace):
                if ea is eb:
                    trace.append(ea)
                    continue
                if ea[0] != eb[0] or len(ea) != len(eb):
                    return None
                trace.append((ea[0],) + tuple(self.merge_val(ca, x, y) for x, y in zip(ea[1:], eb[1:])))
            ghost = {}
            for k, va in sa.ghost.items():
                if k in sb.ghost:
                    ghost[k] = self.merge_val(ca, va, sb.ghost[k])
            regs = {}
            for k, va in ra.items():
                if k in rb:
                    vb = rb[k]
                    if va is vb:
                        regs[k] = va
                    else:
                        # a register that cannot be merged may still be live: keep the two states apart
                        regs[k] = self.merge_val(ca, va, vb)
            extra = None
            if xa is not None or xb is not None:
                extra = self.merge_val(ca, xa, xb)
        except Unmergeable:
            return None
        s = State()
        s.heap = heap
        s.otype = sa.otype
        s.trace = tuple(trace)
        s.ghost = ghost
        disj = z3.simplify(z3.Or(ca, cb))
        s.pc = sa.pc[:i] + ([] if z3.is_true(disj) else [disj])
        self.stats["merges"] += 1
        return (s, regs, extra)

    def merge_all(self, items):
        out = []
        for it in items:
            done = False
            for j, o in enumerate(out):
                m = self.try_merge(o, it)
                if m is not None:
                    out[j] = m
                    done = True
                    break
            if not done:
                out.append(it)
        return out

    # -------- feasibility
    def feasible(self, st, extra=None):
        if not self.check_feas:
            return True
        self.stats["feas_checks"] += 1
        s = z3.Solver()
        s.set("timeout", 2000)
        for c in st.pc:
            s.add(c)
        if extra is not None:
            s.add(extra)
        r = s.check()
        return r != z3.unsat

    # -------- obligations
    def oblige(self, st, kind, site, viol, info=None):
        """record: in state st, `viol` must be impossible. Then continue under the assumption !viol."""
        cb = concrete_bool(viol)
        if cb is False:
            if kind in self.record_trivial:
                ob = Oblig("%s%s:%s" % (self.site_prefix, kind, site), kind, z3.BoolVal(False), None, site, info)
                ob.trivial = True
                self.obligs.append(ob)
            return
        name = "%s%s:%s" % (self.site_prefix, kind, site)
        ob = Oblig(name, kind, z3.And(*(st.pc + [viol])) if st.pc else viol, st.fork(), site, info)
        self.obligs.append(ob)
        if cb is True:
            st.pc.append(z3.BoolVal(False))
        else:
            st.pc.append(z3.Not(viol))

    # -------- operand evaluation
    def const(self, c):
        p = self.p
        ck = c["ck"]
        tid = c["t"]
        if ck == "nil":
            return self.zero(tid)
        if ck == "bool":
            return z3.BoolVal(bool(c["v"]))
        if ck == "string":
            return StrV(c["v"])
        b = p.basic(tid)
        if ck in ("int", "float"):
            if b in ("float32", "float64"):
                srt = F32 if b == "float32" else z3.Float64()
                v = c["v"]
                if "/" in v:
                    a, d = v.split("/")
                    return z3.FPVal(int(a) / int(d), srt) if False else z3.fpRealToFP(RNE, z3.RealVal(v), srt)
                return z3.fpRealToFP(RNE, z3.RealVal(v), srt)
            w = p.width(tid)
            return z3.BitVecVal(int(c["v"]) & ((1 << w) - 1), w)
        raise Unsupported("const %r" % c)

    def operand(self, fr, v):
        k = v["k"]
        if k == "reg":
            return fr.regs[v["n"]]
        if k == "const":
            return self.const(v)
        if k == "param":
            return fr.args[v["i"]]
        if k == "fv":
            return fr.fvs[v["i"]]
        if k == "global":
            return Ptr(self.global_obj(fr.st, v["n"]), ())
        if k == "func":
            return Closure(v["n"], ())
        if k == "builtin":
            return ("builtin", v["n"])
        raise Unsupported("operand %r" % v)

    def global_obj(self, st, name):
        oid = "g:" + short(name)
        if oid not in st.heap:
            g = self.p.globals.get(name)
            if g is None and name.endswith("init$guard"):
                st.heap[oid] = z3.BoolVal(True)   # packages outside the exported set: treated as initialised
            elif g is None:
                st.heap[oid] = Opaque("global " + name)
            else:
                st.heap[oid] = self.zero(g["t"])
                st.otype[oid] = g["t"]
        return oid

    # -------- execution
    def call_function(self, st, fname, args, fvs=(), site=""):
        """returns list of (state, value) for normal returns; panics/exits go to self.terminals"""
        p = self.p
        self.stats["calls"] += 1
        sh = short(fname)
        h = self.abstract.get(fname) or self.abstract.get(sh)
        if h is not None:
            self.stats["abstracted"].add(sh)
            return h(self, st, args, site)
        if fname in self.modular and fname in self.contracts:
            self.stats["modular_calls"].add(sh)
            return self.ev.apply_contract(self, st, self.contracts[fname], args, site)
        f = p.funcs.get(fname)
        if self.lenient and "init#" in sh:
            return [(st, None)]
        if f is None or f.external:
            h = EXTERNALS.get(sh)
            if h is not None:
                return h(self, st, args, site)
            if self.lenient:
                return [(st, Opaque(sh))]
            # unknown external: its results are unconstrained (abstracted call); obligations that now fail are reported
            # without a failing input, never silently accepted
            self.stats["abstracted"].add("external:" + sh)
            if f is None:
                raise Unsupported("call of unknown function %s" % sh)
            vals = [self.havoc_external(t, sh) for t in f.results]
            return [(st, None if not vals else (vals[0] if len(vals) == 1 else TupleV(vals)))]
        if self.depth > self.max_depth:
            raise Unsupported("call depth exceeded at %s" % sh)
        self.stats["inlined"].add(sh)
        self.depth += 1
        try:
            outs = self.exec_body(st, f, list(args), list(fvs))
        finally:
            self.depth -= 1
        merged = self.merge_all([(s, {}, v) for (s, v) in outs])
        return [(s, v) for (s, _, v) in merged]

    def call_value(self, st, fv, args, site=""):
        if isinstance(fv, Closure):
            if fv.fn is None:
                self.terminals.append(Terminal("panic", st, site, "call of nil func"))
                self.oblige(st, "no-panic", "nilfunc@" + site, z3.BoolVal(True))
                return []
            return self.call_function(st, fv.fn, args, fv.bind, site)
        raise Unsupported("call of %r" % (fv,))

    def exec_body(self, st, f, args, fvs):
        rpo, back, headers = f.order()
        blocks = {b["idx"]: b for b in f.blocks}
        pending = {0: [(st, {}, None)]}
        pos = {b: i for i, b in enumerate(rpo)}
        rets = []
        loopinfo = self.ev.loop_info(self, f) if (headers and self.ev is not None) else {}
        for _li in loopinfo.values():
            _li["entry_objs"] = set(st.heap.keys())
        # Blocks are processed in reverse post-order, always taking the earliest block that has pending states, so every
        # join sees all its arrivals of the current round and merges them. A loop without an invariant is unrolled round
        # by round (back edges re-queue the header); that terminates only when the loop bound is concrete in every state.
        budget = 40 * len(rpo) + 20000
        bodies = {}
        while pending:
            cands = sorted(pending.keys(), key=lambda k: pos[k])
            bi = cands[0]
            for c in cands:
                # a loop header waits until the states still inside its body have reached the back edge (or left)
                if c in headers and c not in loopinfo:
                    body = bodies.get(c)
                    if body is None:
                        body = bodies[c] = f.loop_body(c)
                    if any(o != c and o in body for o in cands):
                        continue
                bi = c
                break
            ins = pending.pop(bi, None)
            budget -= 1
            if budget < 0:
                raise Unsupported("loop without invariant does not terminate under unrolling in %s" % f.short)
            if not ins:
                continue
            b = blocks[bi]
            # phi evaluation per incoming edge
            prepared = []
            for (s, regs, pred) in ins:
                regs = dict(regs)
                if pred is not None:
                    ei = b["preds"].index(pred)
                    fr = Frame(s, regs, args, fvs)
                    vals = []
                    for ins_ in b["instrs"]:
                        if ins_["op"] != "Phi":
                            break
                        vals.append((ins_["n"], self.operand(fr, ins_["edges"][ei])))
                    for n, v in vals:
                        regs[n] = v
                prepared.append((s, regs, None))
            if bi in headers and bi in loopinfo:
                prepared = self.loop_entry(f, b, prepared, args, fvs, loopinfo[bi])
            merged = self.merge_all(prepared)
            for (s, regs, _) in merged:
                self.run_block(f, b, 0, s, regs, args, fvs, pending, rets, back, loopinfo)
        return rets

    def loop_entry(self, f, b, arrivals, args, fvs, info):
        """cut the loop at its header: prove invariant on entry, havoc, assume invariant"""
        out = []
        for (s, regs, _) in arrivals:
            self.ev.loop_check(self, f, b, s, regs, args, fvs, info, "entry")
            s2 = s.fork()
            regs2 = dict(regs)
            snapshot = self.ev.loop_havoc(self, f, b, s2, regs2, args, fvs, info)
            info.setdefault("snapshots", []).append(snapshot)
            self.ev.loop_assume(self, f, b, s2, regs2, args, fvs, info)
            out.append((s2, regs2, None))
        return out

    def exec_unrolled(self, st, f, args, fvs, limit=20000):
        """plain path exploration without merging, for loops whose bounds are concrete"""
        blocks = {b["idx"]: b for b in f.blocks}
        rets = []
        work = [(0, None, st, {})]
        steps = 0
        while work:
            bi, pred, s, regs = work.pop()
            steps += 1
            if steps > limit:
                raise Unsupported("unrolling limit in %s" % f.short)
            b = blocks[bi]
            regs = dict(regs)
            if pred is not None:
                ei = b["preds"].index(pred)
                fr = Frame(s, regs, args, fvs)
                vals = []
                for ins_ in b["instrs"]:
                    if ins_["op"] != "Phi":
                        break
                    vals.append((ins_["n"], self.operand(fr, ins_["edges"][ei])))
                for n, v in vals:
                    regs[n] = v
            pend = {}
            self.run_block(f, b, 0, s, regs, args, fvs, pend, rets, set(), {})
            for tgt, lst in pend.items():
                for (s2, r2, pr) in lst:
                    work.append((tgt, pr, s2, r2))
        return rets

    def run_block(self, f, b, start, st, regs, args, fvs, pending, rets, back, loopinfo):
        fr = Frame(st, regs, args, fvs)
        instrs = b["instrs"]
        i = start
        n = len(instrs)
        while i < n:
            ins = instrs[i]
            op = ins["op"]
            self.stats["instrs"] += 1
            if op == "Phi":
                i += 1
                continue
            site = "%s@%s" % (f.short, ins.get("pos", "?"))
            if op == "Call":
                outs = self.do_call(fr, ins, site)
                if len(outs) == 1:
                    s2, v = outs[0]
                    fr.st = s2
                    fr.regs[ins["n"]] = v
                    i += 1
                    continue
                for (s2, v) in outs:
                    r2 = dict(fr.regs)
                    r2[ins["n"]] = v
                    self.run_block(f, b, i + 1, s2, r2, args, fvs, pending, rets, back, loopinfo)
                return
            if op == "If":
                c = self.operand(fr, ins["cond"])
                if isinstance(c, Opaque):
                    if self.lenient:
                        return
                    raise Unsupported("branch on opaque value at " + site)
                cb = concrete_bool(c)
                t, e = b["succs"]
                if cb is True:
                    self.edge(f, b, t, fr.st, fr.regs, pending, back, loopinfo, args, fvs)
                elif cb is False:
                    self.edge(f, b, e, fr.st, fr.regs, pending, back, loopinfo, args, fvs)
                else:
                    self.stats["forks"] += 1
                    st_t = fr.st.fork()
                    st_t.pc.append(c)
                    st_e = fr.st
                    st_e.pc.append(z3.Not(c))
                    if self.feasible(st_t):
                        self.edge(f, b, t, st_t, dict(fr.regs), pending, back, loopinfo, args, fvs)
                    if self.feasible(st_e):
                        self.edge(f, b, e, st_e, fr.regs, pending, back, loopinfo, args, fvs)
                return
            if op == "Jump":
                self.edge(f, b, b["succs"][0], fr.st, fr.regs, pending, back, loopinfo, args, fvs)
                return
            if op == "Return":
                vals = [self.operand(fr, r) for r in ins["results"]]
                if len(vals) == 0:
                    v = None
                elif len(vals) == 1:
                    v = vals[0]
                else:
                    v = TupleV(vals)
                if fr.defers:
                    raise Unsupported("return with pending defers")
                rets.append((fr.st, v))
                return
            if op == "Panic":
                x = self.operand(fr, ins["x"])
                self.terminals.append(Terminal("panic", fr.st, site, x))
                return
            alts = self.step(fr, ins, site)
            if fr.dead:
                return
            if alts:
                # the instruction needed a case split (symbolic index over reference-valued elements)
                for (s2, r2) in alts:
                    self.run_block(f, b, i + 1, s2, r2, args, fvs, pending, rets, back, loopinfo)
                return
            i += 1
        raise Unsupported("block without terminator in %s" % f.short)

    def edge(self, f, b, tgt, st, regs, pending, back, loopinfo, args, fvs):
        if (b["idx"], tgt) in back:
            if tgt in loopinfo:
                # back edge: evaluate phis for this edge, prove the invariant again, stop
                blocks = {x["idx"]: x for x in f.blocks}
                hb = blocks[tgt]
                ei = hb["preds"].index(b["idx"])
                fr = Frame(st, regs, args, fvs)
                regs2 = dict(regs)
                for ins_ in hb["instrs"]:
                    if ins_["op"] != "Phi":
                        break
                    regs2[ins_["n"]] = self.operand(fr, ins_["edges"][ei])
                self.ev.loop_check(self, f, hb, st, regs2, args, fvs, loopinfo[tgt], "preserve")
                return
            # unrolled mode
        pending.setdefault(tgt, []).append((st, regs, b["idx"]))

    # -------- single instructions
    def step(self, fr, ins, site):
        op = ins["op"]
        p = self.p
        st = fr.st
        R = fr.regs
        if op == "Alloc":
            et = p.under(ins["t"])["elem"]
            oid = self.new_obj(st, self.zero(et), et)
            R[ins["n"]] = Ptr(oid, ())
        elif op == "FieldAddr":
            x = self.operand(fr, ins["x"])
            if isinstance(x, Opaque):
                R[ins["n"]] = x
                return
            if x.obj is None:
                self.nil_deref(fr, site)
                return
            R[ins["n"]] = Ptr(x.obj, x.path + (ins["idx"],))
        elif op == "Field":
            x = self.operand(fr, ins["x"])
            R[ins["n"]] = x.items[ins["idx"]] if isinstance(x, StructV) else Opaque("field")
        elif op == "IndexAddr":
            x = self.operand(fr, ins["x"])
            idx = self.operand(fr, ins["i"])
            sg = p.signed(ins["it"])
            if isinstance(x, Opaque):
                R[ins["n"]] = x
                return
            if isinstance(x, Ptr):
                if x.obj is None:
                    self.nil_deref(fr, site)
                    return
                ln = p.under(p.under(ins["xt"])["elem"])["len"]
                ci = concrete_int(idx, sg)
                if ci is not None:
                    if ci < 0 or ci >= ln:
                        self.oblige(st, "no-panic", "index@" + site, z3.BoolVal(True))
                        fr.dead = True
                        return
                    R[ins["n"]] = Ptr(x.obj, x.path + (ci,))
                else:
                    i64 = to64(idx, sg)
                    self.oblige(st, "no-panic", "index@" + site, z3.UGE(i64, z3.BitVecVal(ln, 64)))
                    R[ins["n"]] = Ptr(x.obj, x.path + (i64,))
            elif isinstance(x, SliceV):
                if x.obj is None:
                    self.oblige(st, "no-panic", "index@" + site, z3.BoolVal(True))
                    fr.dead = True
                    return
                ci = concrete_int(idx, sg)
                i64 = ci if ci is not None else to64(idx, sg)
                cl = concrete_int(x.len)
                if ci is not None and cl is not None:
                    if ci < 0 or ci >= cl:
                        self.oblige(st, "no-panic", "index@" + site, z3.BoolVal(True))
                        fr.dead = True
                        return
                else:
                    self.oblige(st, "no-panic", "index@" + site, z3.UGE(idx_term(i64), idx_term(x.len)))
                R[ins["n"]] = Ptr(x.obj, x.path + (idx_add(x.off, i64),))
            else:
                raise Unsupported("IndexAddr on %r" % (x,))
        elif op == "Index":
            x = self.operand(fr, ins["x"])
            idx = self.operand(fr, ins["i"])
            sg = p.signed(ins["it"])
            if isinstance(x, StrV) or isinstance(x, Opaque):
                R[ins["n"]] = Opaque("strindex")
                return
            ln = len(x.items) if isinstance(x, ArrV) else x.n
            ci = concrete_int(idx, sg)
            if ci is not None:
                if ci < 0 or ci >= ln:
                    self.oblige(st, "no-panic", "index@" + site, z3.BoolVal(True))
                    fr.dead = True
                    return
                R[ins["n"]] = self._get(x, (ci,))
            else:
                i64 = to64(idx, sg)
                self.oblige(st, "no-panic", "index@" + site, z3.UGE(i64, z3.BitVecVal(ln, 64)))
                R[ins["n"]] = self._get(x, (i64,))
        elif op == "UnOp":
            return self.unop(fr, ins, site)
        elif op == "BinOp":
            self.binop(fr, ins, site)
        elif op == "Store":
            a = self.operand(fr, ins["addr"])
            v = self.operand(fr, ins["val"])
            if isinstance(a, Opaque):
                return
            if a.obj is None:
                self.nil_deref(fr, site)
                return
            self.store(st, a, v)
        elif op == "Convert":
            R[ins["n"]] = self.convert(self.operand(fr, ins["x"]), ins["xt"], ins["t"])
        elif op in ("ChangeType", "ChangeInterface"):
            R[ins["n"]] = self.operand(fr, ins["x"])
        elif op == "MakeInterface":
            R[ins["n"]] = Iface(ins["xt"], self.operand(fr, ins["x"]))
        elif op == "MakeClosure":
            R[ins["n"]] = Closure(ins["fn"], tuple(self.operand(fr, b) for b in ins["bindings"]))
        elif op == "Slice":
            self.slice_op(fr, ins, site)
        elif op == "MakeSlice":
            et = p.under(ins["t"])["elem"]
            ln = self.operand(fr, ins["len"])
            cl = concrete_int(ln, True)
            if cl is not None and cl <= 64 and p.kind(et) != "array":
                oid = self.new_obj(st, ArrV([self.zero(et)] * cl))
                R[ins["n"]] = SliceV(oid, (), 0, cl, cl)
            else:
                oid = self.new_obj(st, ZArr(self.zero_zarr(et), et, None))
                l64 = cl if cl is not None else to64(ln, True)
                if cl is None:
                    self.oblige(st, "no-panic", "makeslice@" + site, to64(ln, True) < 0)
                R[ins["n"]] = SliceV(oid, (), 0, l64, l64)
        elif op == "Extract":
            x = self.operand(fr, ins["x"])
            R[ins["n"]] = x.items[ins["idx"]] if isinstance(x, TupleV) else Opaque("extract")
        elif op == "Send":
            ch = self.operand(fr, ins["chan"])
            v = self.operand(fr, ins["x"])
            if isinstance(ch, ChanV) and ch.id is None:
                raise Unsupported("send on nil channel (blocks forever)")
            st.trace = st.trace + (("send", ch, v),)
        elif op == "Defer":
            c = ins["call"]
            fv = self.operand(fr, c["fn"]) if "fn" in c else None
            args = [self.operand(fr, a) for a in c["args"]]
            fr.defers.append((c, fv, args))
            fr.st.ghost["defers"] = fr.st.ghost.get("defers", ()) + ((c.get("static") or "?", fv, tuple(args)),)
        elif op == "RunDefers":
            ds = st.ghost.get("defers", ())
            st.ghost["defers"] = ()
            fr.defers = []
            cur = [st]
            for (nm, fv, args) in reversed(ds):
                nxt = []
                for s in cur:
                    if isinstance(fv, Closure):
                        outs = self.call_value(s, fv, list(args), site)
                    else:
                        outs = self.call_function(s, nm, list(args), (), site)
                    nxt.extend(o[0] for o in outs)
                cur = nxt
            if len(cur) != 1:
                raise Unsupported("deferred call forked")
            fr.st = cur[0]
        elif op == "TypeAssert":
            x = self.operand(fr, ins["x"])
            if self.lenient:
                R[ins["n"]] = Opaque("typeassert")
            else:
                raise Unsupported("TypeAssert")
        elif op == "Select":
            self.ev.select_op(self, fr, ins, site)
        elif op in ("Range", "Next", "Lookup", "MakeMap", "MapUpdate", "MakeChan", "Go"):
            if self.lenient:
                if "n" in ins:
                    R[ins["n"]] = Opaque(op)
            else:
                raise Unsupported(op + " in " + site)
        else:
            raise Unsupported("instruction %s" % op)

    def havoc_external(self, tid, nm):
        k = self.p.kind(tid)
        if k == "basic":
            v = self.fresh(tid, "external." + nm)
            return v
        if k == "struct":
            return StructV([self.havoc_external(f["t"], nm) for f in self.p.struct_fields(tid)])
        if k == "array":
            u = self.p.under(tid)
            if self.big_array(tid):
                return self.fresh(tid, "external." + nm)
            return ArrV([self.havoc_external(u["elem"], nm) for _ in range(u["len"])])
        return self.zero(tid)

    def split_load(self, fr, ins, x):
        """load through a symbolic index whose candidates are references that cannot be merged (slices, closures, ...):
        case split on the index value"""
        k = None
        for j, stp in enumerate(x.path):
            if not isinstance(stp, int):
                k = j
                break
        if k is None:
            raise Unsupported("unmergeable load without a symbolic index")
        cont = self._get(fr.st.heap[x.obj], x.path[:k])
        if not isinstance(cont, ArrV) or len(cont.items) > 64:
            raise Unsupported("case split over %r" % (cont,))
        alts = []
        t = x.path[k]
        for i in range(len(cont.items)):
            s2 = fr.st.fork()
            s2.pc.append(t == z3.BitVecVal(i, 64))
            if not self.feasible(s2):
                continue
            r2 = dict(fr.regs)
            r2[ins["n"]] = self.load(s2, Ptr(x.obj, x.path[:k] + (i,) + x.path[k + 1:]))
            alts.append((s2, r2))
        return alts

    def nil_deref(self, fr, site):
        self.oblige(fr.st, "no-panic", "nil@" + site, z3.BoolVal(True))
        self.terminals.append(Terminal("panic", fr.st, site, "nil dereference"))
        fr.dead = True

    def unop(self, fr, ins, site):
        x = self.operand(fr, ins["x"])
        u = ins["uop"]
        R = fr.regs
        if isinstance(x, Opaque):
            R[ins["n"]] = x
            return
        if u == "*":
            if x.obj is None:
                self.nil_deref(fr, site)
                return
            try:
                R[ins["n"]] = self.load(fr.st, x)
            except Unmergeable:
                return self.split_load(fr, ins, x)
        elif u == "!":
            R[ins["n"]] = z3.Not(x)
        elif u == "-":
            if z3.is_fp(x):
                R[ins["n"]] = z3.fpNeg(x)
            else:
                R[ins["n"]] = -x
        elif u == "^":
            R[ins["n"]] = ~x
        elif u == "<-":
            if self.lenient:
                R[ins["n"]] = Opaque("recv")
            else:
                raise Unsupported("channel receive")
        else:
            raise Unsupported("unop " + u)

    def binop(self, fr, ins, site):
        p = self.p
        x = self.operand(fr, ins["x"])
        y = self.operand(fr, ins["y"])
        o = ins["bop"]
        R = fr.regs
        n = ins["n"]
        if isinstance(x, Opaque) or isinstance(y, Opaque):
            R[n] = Opaque("binop")
            return
        if not is_z3(x) or not is_z3(y):
            # comparisons of pointers / funcs / slices / interfaces / strings
            if o in ("==", "!="):
                eq = self.ref_eq(x, y)
                R[n] = z3.BoolVal(eq if o == "==" else not eq)
                return
            if isinstance(x, StrV) and o == "+":
                R[n] = StrV(x.s + (y.s if isinstance(y, StrV) else "?"))
                return
            raise Unsupported("binop %s on %r %r" % (o, x, y))
        if z3.is_bool(x):
            if o == "==":
                R[n] = x == y
            elif o == "!=":
                R[n] = x != y
            elif o in ("&&", "&"):
                R[n] = z3.And(x, y)
            elif o in ("||", "|"):
                R[n] = z3.Or(x, y)
            else:
                raise Unsupported("bool binop " + o)
            return
        if z3.is_fp(x):
            f = {"+": lambda: z3.fpAdd(RNE, x, y), "-": lambda: z3.fpSub(RNE, x, y), "*": lambda: z3.fpMul(RNE, x, y),
                 "/": lambda: z3.fpDiv(RNE, x, y), "==": lambda: z3.fpEQ(x, y), "!=": lambda: z3.Not(z3.fpEQ(x, y)),
                 "<": lambda: z3.fpLT(x, y), "<=": lambda: z3.fpLEQ(x, y), ">": lambda: z3.fpGT(x, y),
                 ">=": lambda: z3.fpGEQ(x, y)}.get(o)
            if f is None:
                raise Unsupported("float binop " + o)
            R[n] = f()
            return
        sg = p.signed(ins["xt"])
        if o in ("<<", ">>"):
            w = x.size()
            ysg = p.signed(ins["yt"])
            if ysg:
                self.oblige(fr.st, "no-panic", "negshift@" + site, y < 0)
            yw = y.size()
            if yw > w:
                cnt = z3.If(z3.UGE(y, z3.BitVecVal(w, yw)), z3.BitVecVal(w, w), z3.Extract(w - 1, 0, y))
            elif yw < w:
                cnt = z3.ZeroExt(w - yw, y)
            else:
                cnt = y
            if o == "<<":
                R[n] = x << cnt
            else:
                R[n] = (x >> cnt) if sg else z3.LShR(x, cnt)
            return
        if o == "+":
            R[n] = x + y
        elif o == "-":
            R[n] = x - y
        elif o == "*":
            R[n] = x * y
        elif o in ("/", "%"):
            self.oblige(fr.st, "no-panic", "divzero@" + site, y == 0)
            if o == "/":
                R[n] = (x / y) if sg else z3.UDiv(x, y)
            else:
                R[n] = z3.SRem(x, y) if sg else z3.URem(x, y)
        elif o == "&":
            R[n] = x & y
        elif o == "|":
            R[n] = x | y
        elif o == "^":
            R[n] = x ^ y
        elif o == "&^":
            R[n] = x & ~y
        elif o == "==":
            R[n] = x == y
        elif o == "!=":
            R[n] = x != y
        elif o == "<":
            R[n] = (x < y) if sg else z3.ULT(x, y)
        elif o == "<=":
            R[n] = (x <= y) if sg else z3.ULE(x, y)
        elif o == ">":
            R[n] = (x > y) if sg else z3.UGT(x, y)
        elif o == ">=":
            R[n] = (x >= y) if sg else z3.UGE(x, y)
        else:
            raise Unsupported("binop " + o)

    def ref_eq(self, x, y):
        if isinstance(x, Ptr) and isinstance(y, Ptr):
            if x.obj is None or y.obj is None:
                return x.obj is None and y.obj is None
            return x.same(y)
        if isinstance(x, SliceV) and isinstance(y, SliceV):
            # only comparison with nil is legal in Go
            return x.obj is None and y.obj is None
        if isinstance(x, Closure) and isinstance(y, Closure):
            return x.fn is None and y.fn is None
        if isinstance(x, Iface) and isinstance(y, Iface):
            if x.t is None or y.t is None:
                return x.t is None and y.t is None
            return x.t == y.t and self.ref_eq(x.v, y.v)
        if isinstance(x, ChanV) and isinstance(y, ChanV):
            return x.id == y.id
        if isinstance(x, StrV) and isinstance(y, StrV):
            return x.s == y.s
        raise Unsupported("equality of %r and %r" % (x, y))

    def convert(self, x, xt, t):
        p = self.p
        if isinstance(x, Opaque):
            return x
        bs, bd = p.basic(xt), p.basic(t)
        if bs is None or bd is None:
            k = p.kind(t)
            if k in ("slice", "ptr") or isinstance(x, StrV):
                return x if not isinstance(x, StrV) else Opaque("strconv")
            raise Unsupported("convert %s -> %s" % (p.tname(xt), p.tname(t)))
        if bd == "string":
            return StrV("?")
        if bs in ("float32", "float64") or bd in ("float32", "float64"):
            dsort = F32 if bd == "float32" else z3.Float64()
            if bs in ("float32", "float64") and bd in ("float32", "float64"):
                return z3.fpFPToFP(RNE, x, dsort)
            if bd in ("float32", "float64"):
                return z3.fpSignedToFP(RNE, x, dsort) if p.signed(xt) else z3.fpUnsignedToFP(RNE, x, dsort)
            raise Unsupported("float -> int conversion")
        ws, wd = p.width(xt), p.width(t)
        if wd == ws:
            return x
        if wd < ws:
            return z3.Extract(wd - 1, 0, x)
        return z3.SignExt(wd - ws, x) if p.signed(xt) else z3.ZeroExt(wd - ws, x)

    def slice_op(self, fr, ins, site):
        p = self.p
        x = self.operand(fr, ins["x"])
        lo = self.operand(fr, ins["low"]) if ins["low"] is not None else None
        hi = self.operand(fr, ins["high"]) if ins["high"] is not None else None
        if ins["max"] is not None:
            raise Unsupported("3-index slice")
        st = fr.st
        if isinstance(x, Opaque) or isinstance(x, StrV):
            fr.regs[ins["n"]] = Opaque("slice")
            return
        if isinstance(x, Ptr):
            if x.obj is None:
                self.nil_deref(fr, site)
                return
            ln = p.under(p.under(ins["xt"])["elem"])["len"]
            base_obj, base_path, off, cap = x.obj, x.path, 0, ln
            curlen = ln
        else:
            base_obj, base_path, off, cap, curlen = x.obj, x.path, x.off, x.cap, x.len
        lo_i = 0 if lo is None else (concrete_int(lo, True) if concrete_int(lo, True) is not None else to64(lo, True))
        hi_i = curlen if hi is None else (concrete_int(hi, True) if concrete_int(hi, True) is not None else to64(hi, True))
        # bounds: 0 <= lo <= hi <= cap
        if isinstance(lo_i, int) and isinstance(hi_i, int) and isinstance(cap, int):
            if not (0 <= lo_i <= hi_i <= cap):
                self.oblige(st, "no-panic", "slice@" + site, z3.BoolVal(True))
                fr.dead = True
                return
        else:
            viol = z3.Or(z3.UGT(idx_term(lo_i), idx_term(hi_i)), z3.UGT(idx_term(hi_i), idx_term(cap)))
            self.oblige(st, "no-panic", "slice@" + site, viol)
        fr.regs[ins["n"]] = SliceV(base_obj, base_path, idx_add(off, lo_i), idx_sub(hi_i, lo_i), idx_sub(cap, lo_i))

    # -------- calls
    def do_call(self, fr, ins, site):
        c = ins["call"]
        st = fr.st
        args = [self.operand(fr, a) for a in c["args"]]
        if "invoke" in c:
            recv = self.operand(fr, c["recv"])
            if isinstance(recv, Opaque):
                if self.lenient:
                    return [(st, Opaque("invoke"))]
                raise Unsupported("invoke on opaque")
            h = self.abstract.get("invoke:" + c["invoke"] + ":" + self.p.tname(c["recvt"]))
            if h is not None:
                return h(self, st, [recv] + args, site)
            if recv.t is None:
                self.nil_deref(fr, site)
                return []
            ms = self.p.methods.get(self.p.types[recv.t]["s"], {})
            fn = ms.get(c["invoke"])
            if fn is None:
                raise Unsupported("method %s of %s" % (c["invoke"], self.p.tname(recv.t)))
            return self.call_function(st, fn, [recv.v] + args, (), site)
        fv = self.operand(fr, c["fn"])
        if isinstance(fv, tuple) and fv[0] == "builtin":
            return self.builtin(fr, fv[1], args, ins, site)
        if isinstance(fv, Opaque):
            if self.lenient:
                return [(st, Opaque("call"))]
            raise Unsupported("call of opaque")
        return self.call_value(st, fv, args, site)

    def builtin(self, fr, name, args, ins, site):
        st = fr.st
        if name == "len" or name == "cap":
            x = args[0]
            if isinstance(x, SliceV):
                v = x.len if name == "len" else x.cap
                return [(st, idx_term(v))]
            if isinstance(x, StrV):
                return [(st, z3.BitVecVal(len(x.s), 64))]
            if isinstance(x, (ArrV,)):
                return [(st, z3.BitVecVal(len(x.items), 64))]
            if isinstance(x, Opaque):
                return [(st, Opaque("len"))]
            raise Unsupported("len of %r" % (x,))
        if name == "copy":
            return [(st, self.copy_builtin(st, args[0], args[1], site))]
        if name == "append":
            return [(st, self.append_builtin(st, args[0], args[1], ins, site))]
        if name in ("print", "println"):
            return [(st, None)]
        if self.lenient:
            return [(st, Opaque(name))]
        raise Unsupported("builtin " + name)

    def copy_builtin(self, st, dst, src, site):
        if isinstance(dst, Opaque) or isinstance(src, Opaque):
            return Opaque("copy")
        dl, sl = concrete_int(dst.len), concrete_int(src.len)
        if dl is not None and sl is not None:
            n = min(dl, sl)
            if n <= 256:
                vals = [self.load(st, Ptr(src.obj, src.path + (idx_add(src.off, i),))) for i in range(n)]
                for i, v in enumerate(vals):
                    self.store(st, Ptr(dst.obj, dst.path + (idx_add(dst.off, i),)), v)
                return z3.BitVecVal(n, 64)
        # symbolic / large copy: new array constrained pointwise (quantified axiom)
        n = z3.If(z3.ULT(idx_term(dst.len), idx_term(src.len)), idx_term(dst.len), idx_term(src.len))
        n = z3.simplify(n)
        darr = self._get(st.heap[dst.obj], dst.path)
        sarr = self._get(st.heap[src.obj], src.path)
        if isinstance(darr, ArrV) and isinstance(sarr, ArrV) and len(darr.items) <= 64 and len(sarr.items) <= 64 and \
                all(is_z3(x) for x in darr.items) and all(is_z3(x) for x in sarr.items):
            # small fixed-size arrays with symbolic offsets / length (copy(a[:4], a[k:k+4])): element-wise, from a snapshot of the
            # source (memmove semantics, also when both slices lie in the same array)
            doff, soff = idx_term(dst.off), idx_term(src.off)
            items = []
            for d, old in enumerate(darr.items):
                dk = z3.BitVecVal(d, 64)
                inr = z3.And(z3.UGE(dk, doff), z3.ULT(dk - doff, n))
                srcv = self._ite_chain(list(sarr.items), z3.simplify(soff + (dk - doff)))
                items.append(z3.If(inr, srcv, old))
            st.heap[dst.obj] = self._set(st.heap[dst.obj], dst.path, ArrV(items))
            return n
        if not isinstance(darr, ZArr) or not isinstance(sarr, ZArr):
            raise Unsupported("large copy on non-z3 arrays")
        new = z3.Const(self.fresh_name("copy"), darr.term.sort())
        k = z3.BitVec(self.fresh_name("k"), 64)
        doff, soff = idx_term(dst.off), idx_term(src.off)
        inr = z3.And(z3.UGE(k, doff), z3.ULT(k - doff, n))
        ax = z3.ForAll([k], z3.Select(new, k) == z3.If(inr, z3.Select(sarr.term, soff + (k - doff)), z3.Select(darr.term, k)))
        st.pc.append(ax)
        st.heap[dst.obj] = self._set(st.heap[dst.obj], dst.path, ZArr(new, darr.et, darr.n))
        return n

    def append_builtin(self, st, a, b, ins, site):
        if isinstance(a, Opaque) or isinstance(b, Opaque):
            return Opaque("append")
        la, lb = concrete_int(a.len), concrete_int(b.len)
        et = self.p.under(ins["t"])["elem"]
        if la is not None and lb is not None and la + lb <= 64:
            items = []
            for i in range(la):
                items.append(self.load(st, Ptr(a.obj, a.path + (idx_add(a.off, i),))))
            for i in range(lb):
                items.append(self.load(st, Ptr(b.obj, b.path + (idx_add(b.off, i),))))
            oid = self.new_obj(st, ArrV(items))
            return SliceV(oid, (), 0, la + lb, la + lb)
        srt = z3.ArraySort(BV64, self.sort_of(et))
        new = z3.Const(self.fresh_name("append"), srt)
        k = z3.BitVec(self.fresh_name("k"), 64)
        lat, lbt = idx_term(a.len), idx_term(b.len)

        def sel(sv, i):
            if sv.obj is None:
                return self.zero(et) if not isinstance(self.zero(et), ZArr) else None
            arr = self._get(st.heap[sv.obj], sv.path)
            if isinstance(arr, ZArr):
                return z3.Select(arr.term, idx_term(sv.off) + i)
            return self._ite_chain(arr.items, z3.simplify(idx_term(sv.off) + i))
        body = z3.If(z3.ULT(k, lat), sel(a, k), sel(b, k - lat))
        st.pc.append(z3.ForAll([k], z3.Implies(z3.ULT(k, lat + lbt), z3.Select(new, k) == body)))
        oid = self.new_obj(st, ZArr(new, et, None))
        tot = z3.simplify(lat + lbt)
        return SliceV(oid, (), 0, tot, tot)


class Frame:
    __slots__ = ("st", "regs", "args", "fvs", "dead", "defers")

    def __init__(self, st, regs, args, fvs):
        self.st, self.regs, self.args, self.fvs = st, regs, args, fvs
        self.dead = False
        self.defers = []


# ------------------------------------------------------------------ external functions (assumed contracts)
def _ext_sprintf(e, st, args, site):
    return [(st, StrV("?"))]


def _ext_noeffect(e, st, args, site):
    return [(st, None)]


def _ext_println(e, st, args, site):
    return [(st, TupleV([z3.BitVecVal(0, 64), NILIFACE]))]


def _ext_exit(e, st, args, site):
    e.terminals.append(Terminal("exit", st, site, args[0] if args else None))
    return []


def _ext_stub(e, st, args, site):
    raise Unsupported("call into stubbed cgo package at " + site)


EXTERNALS = {
    "fmt.Sprintf": _ext_sprintf,
    "fmt.Println": _ext_println,
    "fmt.Printf": _ext_println,
    "os.Exit": _ext_exit,
}
