"""Loader for the JSON dump produced by tools/ssaexport: types, functions, CFG order, globals."""
import json, os, subprocess, hashlib, sys, time

MOD = "github.com/scottyw/tetromino"
GB = MOD + "/gameboy/"

INT_W = {"int8": 8, "int16": 16, "int32": 32, "int64": 64, "int": 64,
         "uint8": 8, "byte": 8, "uint16": 16, "uint32": 32, "uint64": 64, "uint": 64, "uintptr": 64,
         "rune": 32}
SIGNED = {"int8", "int16", "int32", "int64", "int", "rune"}


def short(name):
    """github.com/scottyw/tetromino/gameboy/timer.X -> timer.X ; (*.../timer.Timer).F -> (*timer.Timer).F"""
    return name.replace(GB, "").replace(MOD + "/", "")


class Func:
    def __init__(self, d):
        self.d = d
        self.name = d["name"]
        self.short = short(d["name"])
        self.params = d.get("params") or []
        self.freevars = d.get("freevars") or []
        self.results = d.get("results") or []
        self.external = d.get("external", False)
        self.blocks = d.get("blocks") or []
        self.pkg = d.get("pkg")
        self.file = d.get("file")
        self.line = d.get("line")
        self.synthetic = d.get("synthetic") or ""
        self._order = None

    def order(self):
        """reverse post-order of blocks, back edges (src,dst), loop headers"""
        if self._order is not None:
            return self._order
        n = len(self.blocks)
        succs = {b["idx"]: b["succs"] for b in self.blocks}
        seen, post, onstack, back = set(), [], set(), set()
        # iterative DFS
        stack = [(0, iter(succs.get(0, [])))] if n else []
        seen.add(0)
        onstack.add(0)
        while stack:
            node, it = stack[-1]
            adv = False
            for s in it:
                if s in onstack:
                    back.add((node, s))
                elif s not in seen:
                    seen.add(s)
                    onstack.add(s)
                    stack.append((s, iter(succs[s])))
                    adv = True
                    break
            if not adv:
                stack.pop()
                onstack.discard(node)
                post.append(node)
        rpo = list(reversed(post))
        headers = sorted({d for (_, d) in back})
        self._order = (rpo, back, headers)
        return self._order

    def loop_body(self, header):
        """blocks of the natural loop(s) with this header"""
        rpo, back, _ = self.order()
        preds = {b["idx"]: b["preds"] for b in self.blocks}
        body = {header}
        work = [s for (s, d) in back if d == header]
        while work:
            x = work.pop()
            if x in body:
                continue
            body.add(x)
            work.extend(preds[x])
        return body


class Prog:
    def __init__(self, d):
        self.d = d
        self.types = d["types"]
        self.funcs = {k: Func(v) for k, v in d["funcs"].items()}
        self.byshort = {}
        for f in self.funcs.values():
            self.byshort[f.short] = f
        self.globals = d["globals"]
        self.methods = d["methods"]
        self.files = d["files"]
        self.named = {}
        for t in self.types:
            if t["k"] == "named":
                self.named[short(t["name"])] = t["id"]
        self.stubbed = d.get("stubbed", [])

    # ---- types
    def T(self, tid):
        return self.types[tid]

    def under(self, tid):
        t = self.types[tid]
        while t["k"] == "named":
            t = self.types[t["under"]]
        return t

    def kind(self, tid):
        return self.under(tid)["k"]

    def basic(self, tid):
        u = self.under(tid)
        if u["k"] != "basic":
            return None
        n = u["name"]
        if n.startswith("untyped "):
            n = {"untyped int": "int", "untyped bool": "bool", "untyped float": "float64", "untyped rune": "int32",
                 "untyped string": "string", "untyped nil": "nil"}[n]
        if n == "byte":
            n = "uint8"
        if n == "rune":
            n = "int32"
        return n

    def is_int(self, tid):
        b = self.basic(tid)
        return b in INT_W

    def width(self, tid):
        return INT_W[self.basic(tid)]

    def signed(self, tid):
        return self.basic(tid) in SIGNED

    def tname(self, tid):
        return short(self.types[tid]["s"])

    def func(self, name):
        if name in self.funcs:
            return self.funcs[name]
        if name in self.byshort:
            return self.byshort[name]
        raise KeyError(name)

    def has_func(self, name):
        return name in self.funcs or name in self.byshort

    def struct_fields(self, tid):
        u = self.under(tid)
        assert u["k"] == "struct", u
        return u["fields"]

    def field_index(self, tid, name):
        """index path (list of indices incl. embedded promotion, with 'deref' markers) for field `name`"""
        u = self.under(tid)
        if u["k"] == "ptr":
            u = self.under(u["elem"])
        if u["k"] != "struct":
            return None
        for i, f in enumerate(u["fields"]):
            if f["name"] == name:
                return [(i, f["t"])]
        for i, f in enumerate(u["fields"]):
            if f["emb"]:
                sub = self.field_index(f["t"], name)
                if sub is not None:
                    return [(i, f["t"])] + sub
        return None


def export(repo="/repo", out=None, gameboy=True):
    """run bin/ssaexport on the working tree and load the result"""
    here = os.path.dirname(os.path.dirname(os.path.abspath(__file__)))
    exe = os.path.join(here, "bin", "ssaexport")
    if not os.path.exists(exe):
        build_exporter()
    if out is None:
        os.makedirs(os.path.join(here, "cache"), exist_ok=True)
        out = os.path.join(here, "cache", "ssa.%d.json" % os.getpid())
    env = dict(os.environ, GOFLAGS="-mod=mod", GOPROXY="off", GOSUMDB="off", GOTOOLCHAIN="local")
    t0 = time.time()
    r = subprocess.run([exe, "-repo", repo, "-o", out] + ([] if gameboy else ["-gameboy=false"]), env=env,
                       capture_output=True, text=True)
    if r.returncode != 0:
        raise ExportError(r.stderr)
    with open(out) as f:
        d = json.load(f)
    os.unlink(out)
    p = Prog(d)
    p.export_s = time.time() - t0
    return p


class ExportError(Exception):
    pass


def build_exporter():
    here = os.path.dirname(os.path.dirname(os.path.abspath(__file__)))
    env = dict(os.environ, GOFLAGS="-mod=mod", GOPROXY="off", GOSUMDB="off", GOTOOLCHAIN="local")
    os.makedirs(os.path.join(here, "bin"), exist_ok=True)
    subprocess.run(["go", "build", "-o", os.path.join(here, "bin", "ssaexport"), "."],
                   cwd=os.path.join(here, "tools", "ssaexport"), env=env, check=True)
