import sys, os, importlib, json, argparse


def main():
    ap = argparse.ArgumentParser()
    ap.add_argument("prop", nargs="?")
    ap.add_argument("--tier", default=os.environ.get("VERIF_TIER", "quick"))
    ap.add_argument("--replay")
    ap.add_argument("--only", default=None, help="regex of task names to run (debugging)")
    a = ap.parse_args()
    if a.replay:
        with open(a.replay) as f:
            d = json.load(f)
        print(json.dumps(d, indent=1)[:20000])
        prop = d.get("property")
        if prop:
            a.prop = prop
        else:
            return 0
    if not a.prop:
        ap.error("property id required")
    seed = int(os.environ.get("VERIF_SEED", "0") or 0)
    tier = a.tier if a.tier in ("quick", "thorough") else "quick"
    mod = importlib.import_module("props." + a.prop)
    if a.only:
        os.environ["VERIF_ONLY"] = a.only
    rc = mod.run(tier, seed)
    sys.exit(rc)


if __name__ == "__main__":
    main()
