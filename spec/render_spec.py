"""DMG pixel composition, written from the documentation (Pan Docs), NOT from the emulator's code.
All functions build z3 terms over: vram (Array BV64->BV8, offset from 0x8000), oam (Array BV64->BV8, offset from 0xFE00),
LCDC flags, SCX/SCY/WX/WY, palettes (lists of four 2-bit terms) and the pixel position x,y (BV8, x<160, y<144)."""
import z3


def bv(v, w=8):
    return z3.BitVecVal(v, w)


def zx(x, w):
    return z3.ZeroExt(w - x.size(), x)


def sel(arr, idx16):
    """byte of a BV64-indexed array at a 16-bit offset term"""
    return z3.Select(arr, zx(idx16, 64))


def tile_px(vram, tile_off16, ox, oy):
    """colour index 0..3 of pixel (ox,oy) of the 16-byte tile at vram offset tile_off16: 2*bit(high plane)+bit(low plane)"""
    row = tile_off16 + zx(oy, 16) * 2
    lo = sel(vram, row)
    hi = sel(vram, row + 1)
    sh = bv(7) - ox
    lob = z3.LShR(lo, sh) & 1
    hib = z3.LShR(hi, sh) & 1
    return (hib << 1) | lob


def map_tile_off(vram, map_high, low_tile_data, tx, ty):
    """vram offset of the tile shown at tile coordinates (tx,ty) of the selected 32x32 map"""
    base = z3.If(map_high, bv(0x1C00, 16), bv(0x1800, 16))
    n = sel(vram, base + zx(ty, 16) * 32 + zx(tx, 16))
    unsigned = zx(n, 16) * 16
    signed = bv(0x1000, 16) + z3.SignExt(8, n) * 16
    return z3.If(low_tile_data, unsigned, signed)


def bg_px(vram, S, x, y):
    sx = x + S["scx"]
    sy = y + S["scy"]
    off = map_tile_off(vram, S["highBgTileMap"], S["lowTileData"], z3.LShR(sx, 3), z3.LShR(sy, 3))
    return tile_px(vram, off, sx & 7, sy & 7)


def win_active(S, x, y):
    wx, wy = S["wx"], S["wy"]
    return z3.And(S["windowEnabled"], z3.ULE(wx, 166), z3.ULE(wy, 143), z3.UGE(zx(x, 16) + 7, zx(wx, 16)), z3.UGE(y, wy))


def win_px(vram, S, x, y):
    wxp = zx(x, 16) + 7 - zx(S["wx"], 16)
    wx8 = z3.Extract(7, 0, wxp)
    wy8 = y - S["wy"]
    off = map_tile_off(vram, S["highWindowTileMap"], S["lowTileData"], z3.LShR(wx8, 3), z3.LShR(wy8, 3))
    return tile_px(vram, off, wx8 & 7, wy8 & 7)


def obj_on_line(Y, ly):
    """8x8 object with OAM Y byte Y covers line ly: Y-16 <= ly < Y-8 in mathematical integers (clipped, not hidden)"""
    Y16, l16 = zx(Y, 16), zx(ly, 16)
    return z3.And(l16 + 16 >= Y16, l16 + 8 < Y16)   # 16-bit, no wrap for byte inputs


def obj_covers(X, x):
    X16, x16 = zx(X, 16), zx(x, 16)
    return z3.And(x16 + 8 >= X16, x16 < X16)


def obj_px(vram, oam, i, x, y):
    """(covering and on this line, colour index, attributes) of object i at pixel (x,y)"""
    Y = z3.Select(oam, z3.BitVecVal(4 * i, 64))
    X = z3.Select(oam, z3.BitVecVal(4 * i + 1, 64))
    T = z3.Select(oam, z3.BitVecVal(4 * i + 2, 64))
    A = z3.Select(oam, z3.BitVecVal(4 * i + 3, 64))
    ox = (x - X) & 7          # = x - (X-8)
    oy = (y - Y) & 7          # = y - (Y-16)
    ox = z3.If((A & 0x20) != 0, bv(7) - ox, ox)
    oy = z3.If((A & 0x40) != 0, bv(7) - oy, oy)
    c = tile_px(vram, zx(T, 16) * 16, ox, oy)
    return z3.And(obj_on_line(Y, y), obj_covers(X, x)), c, A


GREY = [0xFF, 0xAA, 0x77, 0x33]


def shade(colour2):
    """grey level of a 2-bit colour"""
    r = bv(GREY[3])
    for k in (2, 1, 0):
        r = z3.If(colour2 == k, bv(GREY[k]), r)
    return r


def pal(palette, idx):
    r = palette[3]
    for k in (2, 1, 0):
        r = z3.If(idx == k, palette[k], r)
    return r


def pixel(vram, oam, S, x, y):
    """grey level (one byte, R=G=B) of pixel (x,y) of the frame"""
    # first opaque object in OAM order
    found = z3.BoolVal(False)
    col = bv(0)
    attr = bv(0)
    for i in range(39, -1, -1):
        hit, c, A = obj_px(vram, oam, i, x, y)
        op = z3.And(hit, c != 0)
        found = z3.If(op, z3.BoolVal(True), found)
        col = z3.If(op, c, col)
        attr = z3.If(op, A, attr)
    found = z3.And(S["spritesEnabled"], found)
    under = z3.If(win_active(S, x, y), win_px(vram, S, x, y), z3.If(S["bgEnabled"], bg_px(vram, S, x, y), bv(0)))
    behind = (attr & 0x80) != 0
    use_obj = z3.And(found, z3.Or(z3.Not(behind), under == 0))
    objpal = z3.If((attr & 0x10) != 0, pal(S["obp1"], col), pal(S["obp0"], col))
    return shade(z3.If(use_obj, objpal, pal(S["bgp"], under)))
