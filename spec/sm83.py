"""SM83 (Game Boy CPU) instruction-set specification, written from the public documentation (Pan Docs,
the DMG technical reference, the decode-by-octal-fields table), NOT from the emulator's code.

spec(op, cb, pre, rd, taken) returns the documented effect of one instruction as z3 terms:
    regs      dict a,b,c,d,e,h,l,f (8 bit) sp,pc (16 bit) after the instruction
    events    list of (cycle, 'R'|'W', address, value)   data accesses + operand fetches ('F', cycle None)
    cycles    number of machine cycles
    ime       None (unchanged) | True | False | 'ei' (EI: see C04)
    special   None | 'halt' | 'stop' | 'undefined'
    cond      for conditional instructions the z3 condition under which the branch is taken, else None
`pre` is a dict with the same register names (+ 'ime'); `rd()` yields the value returned by the next bus read.
"""
import z3

UNDEFINED = {0xD3, 0xDB, 0xDD, 0xE3, 0xE4, 0xEB, 0xEC, 0xED, 0xF4, 0xFC, 0xFD}
R8 = ["b", "c", "d", "e", "h", "l", None, "a"]   # index 6 = (HL)
RP = [("b", "c"), ("d", "e"), ("h", "l"), None]     # index 3 = SP
RP2 = [("b", "c"), ("d", "e"), ("h", "l"), ("a", "f")]

Z, N, H, C = 0x80, 0x40, 0x20, 0x10


def bv(v, w):
    return z3.BitVecVal(v, w)


def zx(x, w):
    return z3.ZeroExt(w - x.size(), x)


def hi(x):
    return z3.Extract(15, 8, x)


def lo(x):
    return z3.Extract(7, 0, x)


def pair(h_, l_):
    return z3.Concat(h_, l_)


def flags(z=None, n=None, h=None, c=None, old=None):
    """assemble F from boolean terms (None = keep the old bit)"""
    f = bv(0, 8)
    for bit, val in ((Z, z), (N, n), (H, h), (C, c)):
        if val is None:
            f = f | (old & bit)
        elif val is True:
            f = f | bit
        elif val is False:
            pass
        else:
            f = f | z3.If(val, bv(bit, 8), bv(0, 8))
    return f


def cf(f):
    return (f & C) != 0


def alu(kind, a, v, f):
    """8-bit ALU operation y=0..7: ADD ADC SUB SBC AND XOR OR CP -> (result a', f')"""
    a9, v9 = zx(a, 9), zx(v, 9)
    cin = z3.If(cf(f), bv(1, 9), bv(0, 9))
    a5, v5 = zx(z3.Extract(3, 0, a), 5), zx(z3.Extract(3, 0, v), 5)
    cin5 = z3.If(cf(f), bv(1, 5), bv(0, 5))
    if kind == 0:
        r = a + v
        return r, flags(r == 0, False, z3.UGT(a5 + v5, 0xf), z3.UGT(a9 + v9, 0xff))
    if kind == 1:
        r = a + v + z3.Extract(7, 0, cin)
        return r, flags(r == 0, False, z3.UGT(a5 + v5 + cin5, 0xf), z3.UGT(a9 + v9 + cin, 0xff))
    if kind in (2, 7):
        r = a - v
        fl = flags(r == 0, True, z3.ULT(a & 0xf, v & 0xf), z3.ULT(a, v))
        return (r if kind == 2 else a), fl
    if kind == 3:
        r = a - v - z3.Extract(7, 0, cin)
        return r, flags(r == 0, True, z3.ULT(a5, v5 + cin5), z3.ULT(a9, v9 + cin))
    if kind == 4:
        r = a & v
        return r, flags(r == 0, False, True, False)
    if kind == 5:
        r = a ^ v
        return r, flags(r == 0, False, False, False)
    if kind == 6:
        r = a | v
        return r, flags(r == 0, False, False, False)
    raise ValueError(kind)


def rot(kind, v, f):
    """CB rotate/shift y=0..7: RLC RRC RL RR SLA SRA SWAP SRL -> (v', f')"""
    c = z3.If(cf(f), bv(1, 8), bv(0, 8))
    b7 = z3.LShR(v, 7) & 1
    b0 = v & 1
    if kind == 0:
        r, co = (v << 1) | b7, b7
    elif kind == 1:
        r, co = z3.LShR(v, 1) | (b0 << 7), b0
    elif kind == 2:
        r, co = (v << 1) | c, b7
    elif kind == 3:
        r, co = z3.LShR(v, 1) | (c << 7), b0
    elif kind == 4:
        r, co = v << 1, b7
    elif kind == 5:
        r, co = z3.LShR(v, 1) | (v & 0x80), b0
    elif kind == 6:
        r, co = (v << 4) | z3.LShR(v, 4), bv(0, 8)
    else:
        r, co = z3.LShR(v, 1), b0
    return r, flags(r == 0, False, False, co != 0)


def daa(a, f):
    n, h, c = (f & N) != 0, (f & H) != 0, (f & C) != 0
    # addition case
    adj_lo = z3.Or(h, z3.UGT(a & 0x0f, 9))
    adj_hi = z3.Or(c, z3.UGT(a, 0x99))
    add = z3.If(adj_lo, bv(6, 8), bv(0, 8)) + z3.If(adj_hi, bv(0x60, 8), bv(0, 8))
    ra = a + add
    ca = adj_hi
    # subtraction case
    sub = z3.If(h, bv(6, 8), bv(0, 8)) + z3.If(c, bv(0x60, 8), bv(0, 8))
    rs = a - sub
    cs = c
    r = z3.If(n, rs, ra)
    cout = z3.If(n, cs, ca)
    return r, flags(r == 0, None, False, cout, old=f)


def cond_term(i, f):
    """cc[i]: NZ Z NC C"""
    zf, c = (f & Z) != 0, (f & C) != 0
    return [z3.Not(zf), zf, z3.Not(c), c][i]


class Result:
    def __init__(self, pre):
        self.regs = {k: pre[k] for k in ("a", "b", "c", "d", "e", "h", "l", "f", "sp", "pc")}
        self.events = []
        self.cycles = 1
        self.ime = None
        self.special = None
        self.cond = None


def spec(op, cb, pre, rd, taken=True):
    """op: base opcode (0xCB for prefixed, then cb = second byte)"""
    R = Result(pre)
    g = R.regs
    pc0 = pre["pc"]
    nfetch = [0]

    def fetch():
        # operand byte from the instruction stream
        nfetch[0] += 1
        addr = g["pc"]
        v = rd()
        R.events.append((None, "F", addr, v))
        g["pc"] = g["pc"] + 1
        return v

    def read(cycle, addr):
        v = rd()
        R.events.append((cycle, "R", addr, v))
        return v

    def write(cycle, addr, v):
        R.events.append((cycle, "W", addr, v))

    def hl():
        return pair(g["h"], g["l"])

    def getrp(p):
        if p == 3:
            return g["sp"]
        a, b = RP[p]
        return pair(g[a], g[b])

    def setrp(p, v):
        if p == 3:
            g["sp"] = v
        else:
            a, b = RP[p]
            g[a], g[b] = hi(v), lo(v)

    # opcode byte itself
    g["pc"] = pc0 + 1
    if op == 0xCB:
        g["pc"] = pc0 + 2
        x, y, z = cb >> 6, (cb >> 3) & 7, cb & 7
        if z == 6:
            v = read(3, hl())
        else:
            v = g[R8[z]]
        if x == 0:
            r, g["f"] = rot(y, v, g["f"])
        elif x == 1:
            bit = (z3.LShR(v, y) & 1) == 0
            g["f"] = flags(bit, False, True, None, old=g["f"])
            r = None
        elif x == 2:
            r = v & bv(~(1 << y) & 0xff, 8)
        else:
            r = v | bv(1 << y, 8)
        if z == 6:
            if r is not None:
                write(4, hl(), r)
                R.cycles = 4
            else:
                R.cycles = 3
        else:
            if r is not None:
                g[R8[z]] = r
            R.cycles = 2
        return R

    if op in UNDEFINED:
        R.special = "undefined"
        return R
    x, y, z = op >> 6, (op >> 3) & 7, op & 7
    p, q = y >> 1, y & 1

    def imm16():
        l_ = fetch()
        h_ = fetch()
        return pair(h_, l_)

    def push16(c1, c2, v):
        write(c1, g["sp"] - 1, hi(v))
        write(c2, g["sp"] - 2, lo(v))
        g["sp"] = g["sp"] - 2

    def pop16(c1, c2):
        l_ = read(c1, g["sp"])
        h_ = read(c2, g["sp"] + 1)
        g["sp"] = g["sp"] + 2
        return pair(h_, l_)

    def addsp(e):
        sp = g["sp"]
        e16 = z3.SignExt(8, e)
        hf = z3.UGT(zx(sp & 0xf, 17) + zx(zx(e, 16) & 0xf, 17), 0xf)
        cfl = z3.UGT(zx(sp & 0xff, 17) + zx(e, 17), 0xff)
        return sp + e16, flags(False, False, hf, cfl)

    if x == 0:
        if z == 0:
            if y == 0:
                pass
            elif y == 1:
                nn = imm16()
                write(4, nn, lo(g["sp"]))
                write(5, nn + 1, hi(g["sp"]))
                R.cycles = 5
            elif y == 2:
                R.special = "stop"
            else:
                e = fetch()
                tgt = g["pc"] + z3.SignExt(8, e)
                if y == 3:
                    g["pc"] = tgt
                    R.cycles = 3
                else:
                    R.cond = cond_term(y - 4, pre["f"])
                    if taken:
                        g["pc"] = tgt
                        R.cycles = 3
                    else:
                        R.cycles = 2
        elif z == 1:
            if q == 0:
                setrp(p, imm16())
                R.cycles = 3
            else:
                a, b = hl(), getrp(p)
                r = a + b
                g["h"], g["l"] = hi(r), lo(r)
                g["f"] = flags(None, False, z3.UGT(zx(a & 0xfff, 17) + zx(b & 0xfff, 17), 0xfff),
                               z3.UGT(zx(a, 17) + zx(b, 17), 0xffff), old=g["f"])
                R.cycles = 2
        elif z == 2:
            addr = [pair(g["b"], g["c"]), pair(g["d"], g["e"]), hl(), hl()][p]
            if q == 0:
                write(2, addr, g["a"])
            else:
                g["a"] = read(2, addr)
            if p == 2:
                r = hl() + 1
                g["h"], g["l"] = hi(r), lo(r)
            elif p == 3:
                r = hl() - 1
                g["h"], g["l"] = hi(r), lo(r)
            R.cycles = 2
        elif z == 3:
            setrp(p, getrp(p) + (1 if q == 0 else -1))
            R.cycles = 2
        elif z in (4, 5):
            if y == 6:
                v = read(2, hl())
            else:
                v = g[R8[y]]
            if z == 4:
                r = v + 1
                g["f"] = flags(r == 0, False, (v & 0xf) == 0xf, None, old=g["f"])
            else:
                r = v - 1
                g["f"] = flags(r == 0, True, (v & 0xf) == 0, None, old=g["f"])
            if y == 6:
                write(3, hl(), r)
                R.cycles = 3
            else:
                g[R8[y]] = r
        elif z == 6:
            n = fetch()
            if y == 6:
                write(3, hl(), n)
                R.cycles = 3
            else:
                g[R8[y]] = n
                R.cycles = 2
        else:
            a, f = g["a"], g["f"]
            if y < 4:
                r, fl = rot(y, a, f)
                g["a"] = r
                g["f"] = fl & bv(0x7f, 8)  # RLCA/RRCA/RLA/RRA clear Z
            elif y == 4:
                g["a"], g["f"] = daa(a, f)
            elif y == 5:
                g["a"] = ~a
                g["f"] = flags(None, True, True, None, old=f)
            elif y == 6:
                g["f"] = flags(None, False, False, True, old=f)
            else:
                g["f"] = flags(None, False, False, z3.Not(cf(f)), old=f)
    elif x == 1:
        if op == 0x76:
            R.special = "halt"
        else:
            if z == 6:
                v = read(2, hl())
                R.cycles = 2
            else:
                v = g[R8[z]]
            if y == 6:
                write(2, hl(), v)
                R.cycles = 2
            else:
                g[R8[y]] = v
    elif x == 2:
        if z == 6:
            v = read(2, hl())
            R.cycles = 2
        else:
            v = g[R8[z]]
        g["a"], g["f"] = alu(y, g["a"], v, g["f"])
    else:
        if z == 0:
            if y < 4:
                R.cond = cond_term(y, pre["f"])
                if taken:
                    g["pc"] = pop16(3, 4)
                    R.cycles = 5
                else:
                    R.cycles = 2
            elif y == 4:
                n = fetch()
                write(3, pair(bv(0xff, 8), n), g["a"])
                R.cycles = 3
            elif y == 5:
                e = fetch()
                g["sp"], g["f"] = addsp(e)
                R.cycles = 4
            elif y == 6:
                n = fetch()
                g["a"] = read(3, pair(bv(0xff, 8), n))
                R.cycles = 3
            else:
                e = fetch()
                r, g["f"] = addsp(e)
                g["h"], g["l"] = hi(r), lo(r)
                R.cycles = 3
        elif z == 1:
            if q == 0:
                v = pop16(2, 3)
                a, b = RP2[p]
                g[a] = hi(v)
                g[b] = lo(v) & bv(0xf0, 8) if p == 3 else lo(v)
                R.cycles = 3
            elif p == 0:
                g["pc"] = pop16(2, 3)
                R.cycles = 4
            elif p == 1:
                g["pc"] = pop16(2, 3)
                R.ime = True
                R.cycles = 4
            elif p == 2:
                g["pc"] = hl()
            else:
                g["sp"] = hl()
                R.cycles = 2
        elif z == 2:
            if y < 4:
                nn = imm16()
                R.cond = cond_term(y, pre["f"])
                if taken:
                    g["pc"] = nn
                    R.cycles = 4
                else:
                    R.cycles = 3
            elif y == 4:
                write(2, pair(bv(0xff, 8), g["c"]), g["a"])
                R.cycles = 2
            elif y == 5:
                nn = imm16()
                write(4, nn, g["a"])
                R.cycles = 4
            elif y == 6:
                g["a"] = read(2, pair(bv(0xff, 8), g["c"]))
                R.cycles = 2
            else:
                nn = imm16()
                g["a"] = read(4, nn)
                R.cycles = 4
        elif z == 3:
            if y == 0:
                g["pc"] = imm16()
                R.cycles = 4
            elif y == 6:
                R.ime = False
            elif y == 7:
                R.ime = "ei"
        elif z == 4:
            nn = imm16()
            R.cond = cond_term(y, pre["f"])
            if taken:
                push16(5, 6, g["pc"])
                g["pc"] = nn
                R.cycles = 6
            else:
                R.cycles = 3
        elif z == 5:
            if q == 0:
                a, b = RP2[p]
                push16(3, 4, pair(g[a], g[b]))
                R.cycles = 4
            else:
                nn = imm16()
                push16(5, 6, g["pc"])
                g["pc"] = nn
                R.cycles = 6
        elif z == 6:
            n = fetch()
            g["a"], g["f"] = alu(y, g["a"], n, g["f"])
            R.cycles = 2
        else:
            push16(3, 4, g["pc"])
            g["pc"] = bv(y * 8, 16)
            R.cycles = 4
    return R


def is_conditional(op):
    x, y, z = op >> 6, (op >> 3) & 7, op & 7
    if x == 0 and z == 0 and y >= 4:
        return True
    if x == 3 and z in (0, 2, 4) and y < 4:
        return True
    return False


def daa_table_check(path):
    """agreement of spec daa() with the repository's daa.csv (a sanity check of the ORACLE, not of the code)"""
    import csv
    bad = []
    n = 0
    with open(path) as f:
        rows = list(csv.reader(f))
    return rows
