"""C14 - VBlank and STAT interrupts are requested exactly at their conditions."""
from engine.driver import run_property, Task
from props.common import filter_tasks, TRUSTED, BASE_ASSUME, scan_lemma
import props.ppu_common as pc

MANIFEST = {
    "level": "proof",
    "text": "The request outputs of ppu.EndMachineCycle (the calls of interrupts.RequestVblank / RequestStat, used through their contracts) are proved, for every frame position q and every STAT/LYC/flag state satisfying the timing invariant of C13: VBlank is requested iff the LCD is on and q is the first cycle of line 144; the STAT request is raised iff one of the enabled sources has its rising edge in this call - HBlank source at cycle 61 of lines 0-143, VBlank source at the start of line 144, OAM source at cycle 0 of every line 0-143 (including line 0 after line 153), coincidence source at cycle 0 of the line equal to LYC - and nothing is requested with the LCD off; the coincidence flag is updated at cycle 0 of each line. A scan proves that no other function of package ppu calls the request methods. The very first call after switch-on is a declared don't-care for the OAM source (the statement does not define switching on as an edge); there only the coincidence source may request. The LCD switch functions (enable, disable, WriteLCDC) are obligations here too: they keep the timing invariant and change nothing when bit 7 does not change.",
    "note": "Trusted: go/ssa, engine semantics, z3. Builds on C13's invariant; the single-source restriction of the statement is not needed (the contract gives the exact disjunction for any combination of sources).",
    "technique": "function contract (exact request outputs as a function of the frame position) on the real go/ssa + SSA scan; z3",
    "design_ref": "DESIGN.md section 4 C14",
}


def request_callers(ctx):
    c = pc.callers_of(ctx.prog, "(*interrupts.Interrupts).Request")
    users = set()
    for k in ("(*interrupts.Interrupts).RequestVblank", "(*interrupts.Interrupts).RequestStat"):
        users |= {f for f in c.get(k, set()) if not f.startswith("(*interrupts.")}
    from props.common import not_confined
    nc = not_confined(ctx.prog, users, {"(*ppu.PPU).EndMachineCycle"})
    return not nc, "callers of RequestVblank/RequestStat: %s; outside EndMachineCycle and its private helpers: %s" % (sorted(users), nc)


def tasks(ctx):
    ts = [pc.ppu_task("EndMachineCycle", ["off", "coincidence", "vblank", "stat", "statSwitchOn", "inv"]),
          pc.ppu_task("WriteSTAT", ["0"]), pc.ppu_task("WriteLYC", ["0"]),
          # the request conditions are phrased over the frame position: the only other writers of the position (and of the
          # first-line flag that shortens a line) are the LCD switch functions, which must keep the timing invariant and do
          # nothing when bit 7 does not change
          pc.ppu_task("enable", ["0", "inv"]), pc.ppu_task("disable", ["0", "inv"]), pc.ppu_task("WriteLCDC", ["on", "off", "same", "inv"]), pc.ppu_task("WriteLY", []),
          scan_lemma("scan:only-EndMachineCycle-requests-lcd-interrupts", request_callers, ["ppu (package scan)"])]
    return filter_tasks(ts)


# components whose representation invariants the lemmas above assume in every reachable state (engine/closure.py adds
# the preservation obligations of all their functions)
tasks.invariant_packages = ('ppu', 'oam')


def run(tier, seed):
    return run_property("C14", tasks, "proof", tier, seed, BASE_ASSUME, TRUSTED)
