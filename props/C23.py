"""C23 - serial output delivers each written byte once, in order."""
from engine.driver import run_property, Task
from props.common import filter_tasks, TRUSTED, BASE_ASSUME, field_users, scan_lemma, ext_iface

MANIFEST = {
    "level": "proof",
    "text": "With the writer call abstracted to a ghost output event, WriteSB is proved to perform exactly one Write of the 1-byte slice holding the written value when a writer is configured and no call and no state change when none is; ReadSB/ReadSC return 0xFF and WriteSC/ReadSB/ReadSC perform no output; a scan of the exported SSA proves that no other function touches the writer field. Order and exactly-once for every program follow because each SB write maps to one event appended at the time of the call. Guest side: the memory aspect of the opcode lemmas for the 59 instructions with a documented store (exactly the documented bytes are written to the documented addresses, so a write to FF01 is never elided or duplicated) and the decoder lemma routing FF01/FF02 to WriteSB/WriteSC. In the routing lemma a ghost writer is attached to the serial port, so a bus write to FF01 that does not reach WriteSB is observable as a missing output event.",
    "note": "Assumed: io.Writer.Write is the environment (recorded as an event, assumed to return a nil error; a failing writer panics by design). Routing of FF01/FF02 to these handlers is C06's obligation; wiring of Config.SerialWriter in gameboy.New is checked by C26's scan of gameboy.New.",
    "technique": "function contracts with a ghost output trace on the real go/ssa, VCs discharged by z3, plus an SSA scan for the calls-frame",
    "design_ref": "DESIGN.md section 4 C23",
}
S = "(*serial.Serial)."
FUNCS = [S + "WriteSB", S + "ReadSB", S + "WriteSC", S + "ReadSC"]
ASSUME = BASE_ASSUME + ["io.Writer.Write(p) is an opaque environment call: recorded as one ghost output event carrying p, assumed to return a nil error"]


def writer_users(ctx):
    users = field_users(ctx.prog, "serial.Serial", "writer")
    want = {"serial.New", "(*serial.Serial).WriteSB"}
    from props.common import not_confined
    nc = not_confined(ctx.prog, users, want)
    return not nc, "functions touching Serial.writer: %s; outside New/WriteSB and their private helpers: %s" % (sorted(users), nc)


def tasks(ctx):
    ts = [Task("serial.New", "serial.New", args=lambda w, st: [ext_iface("writer")(w, None, "", None, ())])]
    for f in FUNCS:
        ts.append(Task(f + "[writer]", f, variant="writer", overrides={"Serial.writer": ext_iface("writer")}))
        ts.append(Task(f + "[nowriter]", f, variant="nowriter"))
    ts.append(scan_lemma("scan:only-WriteSB-uses-writer", writer_users, ["serial (package scan)"]))
    # a guest write reaches WriteSB: (a) every instruction with a documented store performs exactly that store on the bus
    # and no other (value and address; the memory aspect of the opcode lemmas for all 501 opcodes: a read-only instruction that also wrote would deliver a byte nobody sent), (b) the bus routes FF01/FF02 to
    # the serial handlers (decoder lemma)
    import props.cpu_common as cc
    import props.mapper_common as mc
    for i, ch in enumerate(cc.opcode_chunks(16)):
        ts.append(cc.opcode_task("C23", ch, i))
    # ... also for the instruction that runs under the halt bug (its first byte is read twice, nothing else differs)
    ts += [cc.haltbug_task(ch, i) for i, ch in enumerate(cc.opcode_chunks(16))]
    for cls in mc.memory_map():
        if cls[0] in ("SB", "SC"):
            ts.append(mc.routing_task("mbc1", cls, "C23"))
    return filter_tasks(ts)


# components whose representation invariants the lemmas above assume in every reachable state (engine/closure.py adds
# the preservation obligations of all their functions)
tasks.invariant_packages = ('serial',)


def run(tier, seed):
    return run_property("C23", tasks, "proof", tier, seed, ASSUME, TRUSTED)
