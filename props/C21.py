"""C21 - channel waveforms run at the documented frequencies."""
from engine.driver import run_property, Task, LemmaTask
from props.common import filter_tasks, TRUSTED, BASE_ASSUME
from props.mem_common import keep_labels
import props.audio_common as ac

MANIFEST = {
    "level": "proof",
    "text": "Countdown contracts on the three real tickTimer functions (one call per clock cycle): the waveform steps exactly when the timer is zero and the timer is then reloaded with P-1, otherwise it only decrements, with P = 4*(2048-f) for channels 1-2, 2*(2048-f) for channel 3 (only while enabled) and d(r)*2^s for channel 4 (d = 8,16,32,...,112) - for all 2048 frequencies and all NR43 values symbolically; a ranking-function lemma over that contract gives consecutive steps exactly P calls apart. The step itself is proved: duty index +1 mod 8, wave position +1 mod 32 with the sample buffer taken from the right nibble, LFSR step equal to the specification function lfsr15 (lfsr7 with NR43 bit 3) for every 16-bit state; trigger reloads the timers with P and sets the LFSR to all ones. That the specification functions produce the maximal sequences (output period 32767, resp. 127) is computed once by iterating the spec (a finite, complete fact about the oracle). tickSweep is verified against the documented sweep: the channel frequency is replaced only when the timer expires with a non-zero period, the new value fits in 11 bits and the shift is non-zero.",
    "note": "Trusted: go/ssa, engine semantics, z3. tickClock's one-call-per-clock scheduling of the tickTimers is part of C20's tickClock obligations (tickTimer is skipped in the machine cycle of a trigger, as the code documents).",
    "technique": "function contracts against spec functions + ranking lemma + finite orbit computation of the spec; z3",
    "design_ref": "DESIGN.md section 4 C21",
}
KEEP = keep_labels({"step", "count", "off", "timer", "lfsr", "position", "sweepinit", "flag", "ok"})


def tasks(ctx):
    ts = [Task("(*audio.square).tickTimer", "(*audio.square).tickTimer", keep=KEEP), Task("(*audio.wave).tickTimer", "(*audio.wave).tickTimer", keep=KEEP),
          Task("(*audio.noise).tickTimer", "(*audio.noise).tickTimer", keep=KEEP),
          Task("(*audio.square).trigger", "(*audio.square).trigger", keep=KEEP), Task("(*audio.wave).trigger", "(*audio.wave).trigger", keep=KEEP),
          Task("(*audio.noise).trigger", "(*audio.noise).trigger", keep=KEEP),
          Task(ac.A + "tickTimer", ac.A + "tickTimer", overrides=ac.OV, keep=keep_labels({"ch1", "ch2", "ch3", "ch4", "ok"})),
          # ... and "the one written": NRx3 sets the low 8 bits, NRx4 the high 3 bits, each keeping the other part; NR43 the noise clock
          *[Task(ac.A + r, ac.A + r, overrides=ac.OV, keep=keep_labels({"freq", "freqhi", "clock", "off"}, kinds=("requires",)))
            for r in ("WriteNR13", "WriteNR23", "WriteNR33", "WriteNR43", "WriteNR14", "WriteNR24", "WriteNR34")],
          # the frequency a channel runs at is the one written to NRx3/NRx4 unless the sweep unit replaces it as documented
          Task("(*audio.square).tickSweep", "(*audio.square).tickSweep", keep=keep_labels({"freq", "shadow", "timer", "idle"})),
          LemmaTask("lemma:lfsr-and-period", ac.lfsr_spec_orbit, ["spec lfsr15/lfsr7 (oracle orbit)", "tickTimer (contract-level period lemma)"])]
    names = {t.name for t in ts}
    ts += [t for t in ac.register_semantics_tasks(ctx) if t.name not in names]
    return filter_tasks(ts)


# components whose representation invariants the lemmas above assume in every reachable state (engine/closure.py adds
# the preservation obligations of all their functions)
tasks.invariant_packages = ('audio',)


def run(tier, seed):
    return run_property("C21", tasks, "proof", tier, seed, BASE_ASSUME, TRUSTED)
