"""C22 - JOYP reflects held buttons for the selected groups."""
from engine.driver import run_property, Task
from props.common import filter_tasks, TRUSTED, BASE_ASSUME

MANIFEST = {
    "level": "proof",
    "text": "ReadJOYP is proved equal to the statement's composition (bits 6-7 one, bits 4-5 the written select bits, low nibble = AND of the selected groups' input nibbles, 0xF when none) for all 2^24 controller states, a superset of the reachable space; ButtonAction is proved to update exactly the pressed/released button's bit (releasing the opposite direction on a press) for all 8 buttons x pressed/released and to preserve the invariant 'opposite directions are never both held', which New establishes; WriteJOYP stores the value. By induction this covers every sequence of presses, releases and select writes.",
    "note": "Trusted: go/ssa construction, engine SSA semantics, z3. Button values outside the 8 declared constants leave the inputs unchanged (proved). Decoder routing of FF00 to these handlers is C06's obligation.",
    "technique": "function contracts (requires/ensures/assigns + invariant) on the real go/ssa, VCs discharged by z3",
    "design_ref": "DESIGN.md section 4 C22",
}
C = "(*controller.Controller)."
FUNCS = ["controller.New", C + "ReadJOYP", C + "WriteJOYP", C + "ButtonAction"]


def tasks(ctx):
    ts = [Task(f, f) for f in FUNCS]
    # "JOYP select writes" reach the controller: the bus routes FF00 to ReadJOYP / WriteJOYP in every machine state (decoder lemma)
    import props.mapper_common as mc
    ts += [mc.routing_task("mbc1", cls, "C22") for cls in mc.memory_map() if cls[0] == "JOYP"]
    return filter_tasks(ts)


# components whose representation invariants the lemmas above assume in every reachable state (engine/closure.py adds
# the preservation obligations of all their functions)
tasks.invariant_packages = ('controller',)


def run(tier, seed):
    return run_property("C22", tasks, "proof", tier, seed, BASE_ASSUME, TRUSTED)
