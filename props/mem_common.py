"""shared task builders for the memory package (C06-C11)"""
import re
from engine.driver import Task

MBCS = ["none", "mbc1", "mbc2", "mbc3", "mbc5"]


def mbc_rw_tasks(ctx, keep=None, which=("Read", "Write")):
    ts = []
    for m in MBCS:
        for op in which:
            f = "(*memory.%s).%s" % (m, op)
            ts.append(Task(f, f, keep=keep))
    if "Write" in which:
        ts.append(Task("(*memory.mbc1).updateBanks", "(*memory.mbc1).updateBanks", keep=keep))
    return ts


def keep_labels(labels, kinds=("no-panic", "requires", "assigns")):
    def keep(name):
        m = re.search(r"#([a-z-]+):(.*)$", name)
        if not m:
            return True
        kind, rest = m.group(1), m.group(2)
        if kind in kinds:
            return True
        return rest in labels
    return keep


def c10_tasks(ctx):
    keep = keep_labels({"rtcsec", "rtcmin", "rtchour", "rtcdayl", "rtcctl", "latch0", "latch1", "latch1no", "livekeep", "valid"}, kinds=("no-panic", "requires"))
    return [Task("(*memory.mbc3).Read", "(*memory.mbc3).Read", keep=keep), Task("(*memory.mbc3).Write", "(*memory.mbc3).Write", keep=keep)]


def prepare_tasks(ctx, which=("memory.prepareROM", "memory.prepareRAM")):
    """the page builders against their contracts: bank counts are the documented function of the header codes and the
    ROM pages hold the image bytes in order"""
    return [Task(f, f) for f in which]


def dump_tasks(ctx):
    return [Task("(*memory.%s).DumpRAM" % k, "(*memory.%s).DumpRAM" % k) for k in ("none", "mbc1", "mbc2", "mbc3", "mbc5")]
