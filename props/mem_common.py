"""shared task builders for the memory package (C06-C11)"""
import re
from engine.driver import Task

MBCS = ["none", "mbc1", "mbc2", "mbc3", "mbc5"]


def mbc_rw_tasks(ctx, keep=None, which=("Read", "Write")):
    ts = []
    for m in MBCS:
        for op in which:
            f = "(*memory.%s).%s" % (m, op)
            ts.append(Task(f, f, keep=keep))
    if "Write" in which:
        ts.append(Task("(*memory.mbc1).updateBanks", "(*memory.mbc1).updateBanks", keep=keep))
    return ts


def keep_labels(labels, kinds=("no-panic", "requires", "assigns")):
    def keep(name):
        m = re.search(r"#([a-z-]+):(.*)$", name)
        if not m:
            return True
        kind, rest = m.group(1), m.group(2)
        if kind in kinds:
            return True
        return rest in labels
    return keep


def c10_tasks(ctx):
    keep = keep_labels({"rtcsec", "rtcmin", "rtchour", "rtcdayl", "rtcctl", "latch0", "latch1", "latch1no", "livekeep", "valid"}, kinds=("no-panic", "requires"))
    return [Task("(*memory.mbc3).Read", "(*memory.mbc3).Read", keep=keep), Task("(*memory.mbc3).Write", "(*memory.mbc3).Write", keep=keep)]


def prepare_tasks(ctx, which=("memory.prepareROM", "memory.prepareRAM")):
    """the page builders against their contracts: bank counts are the documented function of the header codes and the
    ROM pages hold the image bytes in order"""
    return [Task(f, f) for f in which]


def dump_tasks(ctx):
    return [Task("(*memory.%s).DumpRAM" % k, "(*memory.%s).DumpRAM" % k) for k in ("none", "mbc1", "mbc2", "mbc3", "mbc5")]


# power-on register values of each controller (documented: ROM bank register 1 - bank 1 at 4000-7FFF -, upper bits / RAM bank 0,
# simple banking mode, cartridge RAM disabled) together with its representation invariant
POWER_ON = {
    "memory.newMBC1": ("valid1(m) && m.bank1 == 1 && m.bank2 == 0 && !m.mode1 && !m.ramEnabled && m.romBank0 == 0 && m.romBank1 == 1", "mbc1"),
    "memory.newMBC2": ("valid2(m) && m.romBank == 1 && !m.ramEnabled", "mbc2"),
    "memory.newMBC3": ("valid3(m) && m.romBank == 1 && m.ramBank == 0 && !m.ramEnabled", "mbc3"),
    "memory.newMBC5": ("valid5(m) && m.romBank == 1 && m.ramBank == 0 && !m.ramEnabled", "mbc5"),
}


def constructors_lemma(ctx, eng, ce):
    """each controller constructor, called with any legal number of ROM pages and RAM banks, returns a controller in its
    documented power-on state that satisfies its representation invariant and holds exactly the pages it was given"""
    import z3
    from engine.driver import Lem
    from engine.core import State, Iface, Ptr, SliceV
    from engine.verify import World
    from engine import vsl
    lem = Lem()
    p = ctx.prog
    for fn, (post, kind) in POWER_ON.items():
        if not p.has_func(fn):
            lem.add("lemma:constructor:%s-exists" % kind, z3.BoolVal(True))
            continue
        st = State()
        ctx.seed_globals(st)
        w = World(eng, st)
        eng.ev = ce
        eng.contracts = ce.contracts
        eng.modular = set()
        f = p.func(fn)
        args = []
        env0 = {}
        for prm in f.params:
            tn = p.tname(prm["t"])
            if tn == "*memory.rtc":
                a = w.component("memory.rtc")
                st.pc.append(ce.ev.as_bool(ce.ev.eval(vsl.parse("rtcOK(r)"), {"r": vsl.TV(a, ce.ev.ty_of(prm["t"]))}, st, st)))
            else:
                a = w.sym(prm["t"], prm["name"], "arg:" + prm["name"], ())
                env0[prm["name"]] = vsl.TV(a, ce.ev.ty_of(prm["t"]))
            args.append(a)
        pre = "romOK(len(rom))" + (" && ramOK(len(ram))" if "ram" in env0 else "") + (" && len(rom) <= 128" if kind == "mbc1" else "")
        st.pc.append(ce.ev.as_bool(ce.ev.eval(vsl.parse(pre), env0, st, st)))
        eng.terminals, eng.obligs = [], []
        outs = eng.call_function(st.fork(), f.name, args)
        viol, shape = [], []
        for (s, v) in outs:
            if not isinstance(v, Iface) or v.t is None or p.tname(v.t) != "*memory." + kind:
                shape.append(s.pcond())
                continue
            env = dict(env0, m=vsl.TV(v.v, ce.ev.ty_of(v.t)))
            ok = ce.ev.as_bool(ce.ev.eval(vsl.parse(post), env, s, s))
            viol.append(z3.And(s.pcond(), z3.Not(ok)))
            # the controller holds the very slices it was given (no copy of a different size, no swap)
            keeps = "len(m.rom) == len(rom)" + (" && len(m.ram) == len(ram)" if "ram" in env0 and kind != "mbc2" else "")
            okk = ce.ev.as_bool(ce.ev.eval(vsl.parse(keeps), env, s, s))
            mv = s.heap[v.v.obj]
            same = True
            try:
                fl = {fd["name"]: x for fd, x in zip(p.struct_fields(s.otype[v.v.obj]), mv.items)}
                same = isinstance(fl["rom"], SliceV) and fl["rom"].obj == env0["rom"].v.obj
                if "ram" in env0 and kind != "mbc2":
                    same = same and isinstance(fl["ram"], SliceV) and fl["ram"].obj == env0["ram"].v.obj
            except Exception:
                same = False
            viol.append(z3.And(s.pcond(), z3.Or(z3.Not(okk), z3.BoolVal(not same))))
        for t in eng.terminals:
            shape.append(t.state.pcond())
        lem.add("lemma:constructor:%s-power-on-state-and-invariant" % kind, z3.Or(*viol) if viol else z3.BoolVal(True))
        lem.add("lemma:constructor:%s-returns-its-controller" % kind, z3.Or(*shape) if shape else z3.BoolVal(not outs))
        lem.covers.append(("lemma:constructor:%s#cover" % kind, st.pcond()))
    lem.stats = dict(eng.stats)
    return lem


def constructor_tasks(ctx):
    from engine.driver import LemmaTask
    return [LemmaTask("lemma:constructors", constructors_lemma, list(POWER_ON))]
