"""lemmas for package audio (C18-C21)"""
import z3
from engine.core import State, Ptr, ChanV, NILCHAN, concrete_bool, F32, RNE
from engine.verify import World, frame_obligations
from engine.driver import Lem, LemmaTask, Task
from props.common import nil_value

A = "(*audio.Audio)."
MASKS = {"NR10": 0x80, "NR11": 0x3F, "NR12": 0x00, "NR13": 0xFF, "NR14": 0xBF, "NR21": 0x3F, "NR22": 0x00, "NR23": 0xFF, "NR24": 0xBF,
         "NR30": 0x7F, "NR31": 0xFF, "NR32": 0x9F, "NR33": 0xFF, "NR34": 0xBF, "NR41": 0xFF, "NR42": 0x00, "NR43": 0x00, "NR44": 0xBF,
         "NR50": 0x00, "NR51": 0x00}
# while powered off, these writes still reach (part of) the register: the length counters
LENGTH_REGS = {"NR11", "NR21", "NR31", "NR41"}
OV = {"Audio.ch2.sweep": nil_value}


def chan_ov(name):
    def f(world, tid, nm, oid, path):
        return ChanV(name)
    return f


def audio_world(ctx, eng, ce, with_outputs=False):
    st = State()
    ctx.seed_globals(st)
    ov = dict(OV)
    if with_outputs:
        ov["Audio.l"] = chan_ov("left")
        ov["Audio.r"] = chan_ov("right")
    w = World(eng, st, ov)
    a = w.component("audio.Audio")
    eng.ev = ce
    eng.contracts = ce.contracts
    return st, w, a


def getf(ctx, eng, st, a, dotted):
    """load a.<dotted> following pointers (e.g. 'control.on', 'ch1.enabled')"""
    p = ctx.prog
    tid = p.named["audio.Audio"]
    val = st.heap[a.obj]
    ptr = Ptr(a.obj, ())
    for name in dotted.split("."):
        u = p.under(tid)
        if u["k"] == "ptr":
            ptr = eng.load(st, ptr)
            tid = u["elem"]
        path = p.field_index(tid, name)
        for (i, ft) in path:
            uu = p.under(tid)
            if uu["k"] == "ptr":
                ptr = eng.load(st, ptr)
            ptr = Ptr(ptr.obj, ptr.path + (i,))
            tid = ft
    return eng.load(st, ptr), ptr


def setf(ctx, eng, st, a, dotted, v):
    _, ptr = getf(ctx, eng, st, a, dotted)
    eng.store(st, ptr, v)


def call(ctx, eng, st, fn, args):
    return eng.call_function(st, ctx.prog.func(fn).name, args)


def readback_lemmas(ctx, eng, ce):
    """C18: read-after-write per register while powered on; power-off; writes while off; wave RAM"""
    lem = Lem()
    st0, w, a = audio_world(ctx, eng, ce)
    eng.modular = set()
    v = z3.BitVec("v", 8)
    # ---- powered on: Read(after Write(v)) == v | mask, for every pre-state
    for reg, mask in MASKS.items():
        st = st0.fork()
        setf(ctx, eng, st, a, "control.on", z3.BoolVal(True))
        viol = []
        pre = st.fork()
        last = [None, None]
        for (s1, _) in call(ctx, eng, st, A + "Write" + reg, [a, v]):
            for (s2, r) in call(ctx, eng, s1, A + "Read" + reg, [a]):
                viol.append(z3.And(s2.pcond(), r != (v | mask)))
                last = [r, s2]
        ob = lem.add("lemma:readback:%s" % reg, z3.Or(*viol) if viol else z3.BoolVal(True))
        if viol:
            from engine.replay2 import script_info
            ob.info = script_info(w, pre, "github.com/scottyw/tetromino/gameboy/audio", [(A + "Write" + reg, [a, v]), (A + "Read" + reg, [a])],
                                  [None, last[0]], last[1], [a.obj])
    # ---- NR52: 0x70 | power | status bits
    st = st0.fork()
    viol = []
    for (s2, r) in call(ctx, eng, st, A + "ReadNR52", [a]):
        on, _ = getf(ctx, eng, s2, a, "control.on")
        bits = z3.BitVecVal(0x70, 8) | z3.If(on, z3.BitVecVal(0x80, 8), 0)
        for i, ch in enumerate(("ch1", "ch2", "ch3", "ch4")):
            en, _ = getf(ctx, eng, s2, a, ch + ".enabled")
            bits = bits | z3.If(en, z3.BitVecVal(1 << i, 8), 0)
        viol.append(z3.And(s2.pcond(), r != bits))
    lem.add("lemma:readback:NR52", z3.Or(*viol))
    # ---- power off: every register reads its mask, NR52 reads 0x70, wave RAM untouched; power on again keeps it
    st = st0.fork()
    wave0, _ = getf(ctx, eng, st, a, "ch3.waveram")
    for (s1, _) in call(ctx, eng, st, A + "WriteNR52", [a, v & 0x7f]):
        for reg, mask in MASKS.items():
            viol = []
            for (s2, r) in call(ctx, eng, s1.fork(), A + "Read" + reg, [a]):
                viol.append(z3.And(s2.pcond(), r != mask))
            lem.add("lemma:poweroff:%s-reads-mask" % reg, z3.Or(*viol))
        viol = []
        for (s2, r) in call(ctx, eng, s1.fork(), A + "ReadNR52", [a]):
            viol.append(z3.And(s2.pcond(), r != 0x70))
        lem.add("lemma:poweroff:NR52-reads-0x70", z3.Or(*viol))
        wave1, _ = getf(ctx, eng, s1, a, "ch3.waveram")
        lem.add("lemma:poweroff:wave-ram-kept", z3.And(s1.pcond(), z3.Or(*[x != y for x, y in zip(wave0.items, wave1.items)])))
        for (s3, _) in call(ctx, eng, s1.fork(), A + "WriteNR52", [a, v | 0x80]):
            wave2, _ = getf(ctx, eng, s3, a, "ch3.waveram")
            on, _ = getf(ctx, eng, s3, a, "control.on")
            lem.add("lemma:poweron:wave-ram-kept-and-on", z3.And(s3.pcond(), z3.Or(z3.Not(on), *[x != y for x, y in zip(wave0.items, wave2.items)])))
    # ---- while off: writes other than NR52 and the length registers change nothing
    for reg in MASKS:
        st = st0.fork()
        setf(ctx, eng, st, a, "control.on", z3.BoolVal(False))
        pre = st.fork()
        allowed = []
        if reg in LENGTH_REGS:
            ch = {"NR11": "ch1", "NR21": "ch2", "NR31": "ch3", "NR41": "ch4"}[reg]
            _, lp = getf(ctx, eng, st, a, ch + ".length")
            allowed = [("loc", lp, None)]
        for (s1, _) in call(ctx, eng, st, A + "Write" + reg, [a, v]):
            eng.obligs = []
            frame_obligations(eng, ce, pre, s1.fork(), allowed, "", names=w.objname)
            viol = z3.Or(*[o.viol for o in eng.obligs]) if eng.obligs else z3.BoolVal(False)
            ob = lem.add("lemma:off:Write%s-%s" % (reg, "only-length" if allowed else "ignored"), viol,
                         info={"detail": [o.name for o in eng.obligs][:8]})
            if not eng.obligs:
                ob.trivial = True
    # ---- wave RAM is plain memory while channel 3 is off
    st = st0.fork()
    setf(ctx, eng, st, a, "ch3.enabled", z3.BoolVal(False))
    addr = z3.BitVec("waddr", 16)
    st.pc.append(z3.And(z3.UGE(addr, 0xff30), z3.ULE(addr, 0xff3f)))
    viol = []
    for (s1, _) in call(ctx, eng, st, A + "WriteWaveRAM", [a, addr, v]):
        for (s2, r) in call(ctx, eng, s1, A + "ReadWaveRAM", [a, addr]):
            viol.append(z3.And(s2.pcond(), r != v))
    lem.add("lemma:readback:wave-ram", z3.Or(*viol))
    lem.covers.append(("lemma:readback#cover", st0.pcond()))
    lem.add("canary:NR10-reads-back-plain", z3.BoolVal(True), info={"canary": True})
    lem.stats = dict(eng.stats)
    return lem


def stability_lemmas(ctx, eng, ce):
    """C18: a register's read-back value is a function of what was written, not of time: one machine cycle of the APU
    (the real EndMachineCycle: timers, frame sequencer, length, envelope, sweep, sampling) leaves the value read from every
    register NR10-NR51 and the non-status bits of NR52 unchanged, from every state satisfying the APU invariant"""
    from engine import vsl
    lem = Lem()
    st0, w, a = audio_world(ctx, eng, ce, with_outputs=True)
    # the four clock ticks of the machine cycle are taken by contract: their frame (assigns) clause, discharged against the
    # real tickClock / tickFrameSequencer bodies by the two tasks beside this lemma, is what carries the property
    eng.modular = {ctx.prog.func(A + "tickClock").name}
    ty = ce.ev.ty_of(ctx.prog.func(A + "EndMachineCycle").params[0]["t"])
    st0.pc.append(ce.ev.as_bool(ce.ev.eval(vsl.parse("apuOK(a) && a.ticks >= 1 && a.ticks < 0x3fffffffffffff00 && a.frameSeqTicks < 512"), {"a": vsl.TV(a, ty)}, st0, st0)))

    def read(st, reg):
        val = None
        for (s2, r) in call(ctx, eng, st.fork(), A + "Read" + reg, [a]):
            val = r if val is None else z3.If(s2.pcond(), r, val)
        return val
    regs = list(MASKS) + ["NR52"]
    eng.obligs = []
    before = {reg: read(st0, reg) for reg in regs}
    viol = {reg: [] for reg in regs}
    n = 0
    for (s1, _) in call(ctx, eng, st0.fork(), A + "EndMachineCycle", [a]):
        n += 1
        for reg in regs:
            after = read(s1, reg)
            if reg == "NR52":
                viol[reg].append(z3.And(s1.pcond(), (after & 0xf0) != (before[reg] & 0xf0)))
            else:
                viol[reg].append(z3.And(s1.pcond(), after != before[reg]))
    k = 0
    for ob in eng.obligs:
        if ob.kind == "requires":
            k += 1
            lem.add("lemma:stable:tickClock-precondition-at-call-%d" % k, ob.viol)
    for reg in regs:
        lem.add("lemma:stable:%s-unchanged-by-a-machine-cycle" % reg, z3.Or(*viol[reg]) if viol[reg] else z3.BoolVal(True))
    lem.covers.append(("lemma:stable#cover", st0.pcond()))
    lem.notes.append("EndMachineCycle outcomes: %d" % n)
    lem.stats = dict(eng.stats)
    return lem


def is_scalar_arg(x):
    return z3.is_expr(x)


def exported_audio_methods(ctx):
    out = []
    for f in ctx.prog.funcs.values():
        if f.pkg and f.pkg.endswith("/gameboy/audio") and f.blocks and f.short.startswith("(*audio.Audio).") and "$" not in f.short:
            nm = f.short.split(").", 1)[1]
            if nm[:1].isupper():
                out.append(f.short)
    return sorted(out)


def invariant_task(fn):
    """the APU representation invariant (apuOK: every field within the range its register bits allow, which the sample bound
    and the no-panic sweep rely on) and the clock-counter invariant are preserved by fn - an entry point the bus or the frame
    loop can call in any order - from every state satisfying them and for every argument"""
    def run(ctx, eng, ce):
        from engine import vsl
        lem = Lem()
        st, w, a = audio_world(ctx, eng, ce, with_outputs=fn.endswith("EndMachineCycle"))
        f = ctx.prog.func(fn)
        eng.modular = {k for k, cc in ce.contracts.items() if cc.assigns is not None and not cc.inline} - {f.name}
        ty = ce.ev.ty_of(f.params[0]["t"])
        INV = "apuOK(a) && a.ticks >= 1 && a.frameSeqTicks < 512"
        st.pc.append(ce.ev.as_bool(ce.ev.eval(vsl.parse(INV + " && a.ticks < 0x3fffffffffffff00"), {"a": vsl.TV(a, ty)}, st, st)))
        args = [a] + [w.sym(prm["t"], prm["name"], "arg:" + prm["name"], ()) for prm in f.params[1:]]
        eng.obligs = []
        viol = []
        pre = st.fork()
        outs = eng.call_function(st.fork(), f.name, args)
        for (s1, _) in outs:
            ok = ce.ev.as_bool(ce.ev.eval(vsl.parse(INV), {"a": vsl.TV(a, ty)}, s1, s1))
            viol.append(z3.And(s1.pcond(), z3.Not(ok)))
        ob = lem.add("lemma:invariant-preserved:%s" % fn, z3.Or(*viol) if viol else z3.BoolVal(False))
        if outs and all(is_scalar_arg(x) for x in args[1:]):
            from engine.replay2 import script_info
            ob.info = script_info(w, pre, "github.com/scottyw/tetromino/gameboy/audio", [(fn, args)], [None], [s for s, _ in outs], [a.obj])
        k = 0
        for ob in eng.obligs:
            if ob.kind == "requires":
                k += 1
                lem.add("lemma:invariant-preserved:%s:callee-precondition-%d" % (fn, k), ob.viol)
        lem.covers.append(("lemma:invariant-preserved:%s#cover" % fn, z3.Or(*[s.pcond() for s, _ in outs]) if outs else z3.BoolVal(False)))
        lem.stats = dict(eng.stats)
        return lem
    return LemmaTask("invariant-preserved:" + fn, run, [fn])


# ------------------------------------------------------------------ C19
def chan_funcs(ctx):
    """all functions of package audio that can run after construction"""
    out = []
    for f in ctx.prog.funcs.values():
        if f.pkg and f.pkg.endswith("/gameboy/audio") and f.blocks and not f.short.endswith(".init") and "$" not in f.short:
            out.append(f.short)
    return sorted(out)


TURN_ON_ALLOWED = {"(*audio.square).trigger", "(*audio.wave).trigger", "(*audio.noise).trigger", "(*audio.Audio).WriteNR14", "(*audio.Audio).WriteNR24",
                   "(*audio.Audio).WriteNR34", "(*audio.Audio).WriteNR44", "audio.New"}


def never_turns_on_task(fn):
    """frame-style obligation: fn never switches a channel status bit from off to on"""
    def run(ctx, eng, ce):
        lem = Lem()
        st, w, a = audio_world(ctx, eng, ce)
        f = ctx.prog.func(fn)
        eng.modular = set()
        args = []
        recv = f.params[0] if f.d.get("hasrecv") else None
        tname = ctx.prog.tname(recv["t"]) if recv else ""
        for prm in f.params:
            tn = ctx.prog.tname(prm["t"])
            if tn == "*audio.Audio":
                args.append(a)
            elif tn == "*audio.square":
                args.append(("sq",))
            elif tn == "*audio.wave":
                args.append(getf(ctx, eng, st, a, "ch3")[0])
            elif tn == "*audio.noise":
                args.append(getf(ctx, eng, st, a, "ch4")[0])
            elif tn == "*audio.control":
                args.append(getf(ctx, eng, st, a, "control")[0])
            else:
                args.append(w.sym(prm["t"], prm["name"], "arg:" + prm["name"], ()))
        variants = [args]
        if any(isinstance(x, tuple) for x in args):
            variants = [[getf(ctx, eng, st, a, c)[0] if isinstance(x, tuple) else x for x in args] for c in ("ch1", "ch2")]
        viol = []
        for av in variants:
            s0 = st.fork()
            pre = s0.fork()
            try:
                outs = eng.call_function(s0, f.name, av)
            except Exception as ex:
                lem.notes.append("%s: skipped (%s)" % (fn, ex))
                continue
            for (s1, _) in outs:
                for c in ("ch1", "ch2", "ch3", "ch4"):
                    viol.append(z3.And(s1.pcond(), getf(ctx, eng, s1, a, c + ".enabled")[0], z3.Not(getf(ctx, eng, pre, a, c + ".enabled")[0])))
        ob = lem.add("lemma:never-turns-on:%s" % fn, z3.Or(*viol) if viol else z3.BoolVal(False))
        lem.stats = dict(eng.stats)
        return lem
    return LemmaTask("never-turns-on:" + fn, run, [fn])


def length_lemma(ctx, eng, ce):
    """over the contract of tickLength: a channel with length enabled and counter L > 0 is switched off by exactly the L-th
    length clock and not before (ranking function = the counter itself); 256 Hz = every second frame-sequencer step of 512 Hz"""
    lem = Lem()
    for nm, w_ in (("square-noise", 8), ("wave", 16)):
        L = z3.BitVec("L_" + nm, w_)
        en = z3.Bool("en_" + nm)
        L1 = L - 1
        en1 = z3.And(en, L1 != 0)
        hyp = z3.And(z3.UGT(L, 0), z3.ULE(L, 64 if w_ == 8 else 256))
        lem.add("lemma:length:%s:counter-decreases-by-one" % nm, z3.And(hyp, z3.Not(z3.ULT(L1, L))))
        lem.add("lemma:length:%s:off-exactly-at-zero" % nm, z3.And(hyp, en, en1 != (L != 1)))
        lem.add("lemma:length:%s:stays-on-before" % nm, z3.And(hyp, en, z3.UGT(L, 1), z3.Not(en1)))
    lem.covers.append(("lemma:length#cover", z3.BoolVal(True)))
    return lem


# ------------------------------------------------------------------ C20
def mix_lemmas(ctx, eng, ce):
    """takeSample: both samples finite and in [0,1); zero when nothing is routed; independent of unrouted channels"""
    lem = Lem()
    st0, w, a = audio_world(ctx, eng, ce, with_outputs=True)
    eng.modular = set()
    env = ce.param_env(ctx.prog.func(A + "takeSample"), [a])
    inv = ce.ev.as_bool(ce.ev.eval(__import__("engine.vsl", fromlist=["parse"]).parse("apuOK(a)"), env, st0, st0))
    st0.pc.append(inv)
    st0.pc.append(getf(ctx, eng, st0, a, "control.on")[0])
    lem.covers.append(("lemma:mix#cover", st0.pcond()))

    def run(st):
        outs = call(ctx, eng, st, A + "takeSample", [a])
        res = []
        for (s, _) in outs:
            sends = [ev for ev in s.trace if ev[0] == "send"]
            res.append((s, sends))
        return res
    base = run(st0.fork())
    zero = z3.FPVal(0.0, F32)
    one = z3.FPVal(1.0, F32)
    for side, idx, chan in (("left", 0, "left"), ("right", 1, "right")):
        bound, shape, silent = [], [], []
        for (s, sends) in base:
            if len(sends) != 2 or sends[0][1].id != "left" or sends[1][1].id != "right":
                shape.append(s.pcond())
                continue
            v = sends[idx][2]
            bound.append(z3.And(s.pcond(), z3.Not(z3.And(z3.Not(z3.fpIsNaN(v)), z3.Not(z3.fpIsInf(v)), z3.fpGEQ(v, zero), z3.fpLT(v, one)))))
            routed = []
            for c in ("ch1", "ch2", "ch3", "ch4"):
                r = getf(ctx, eng, s, a, "control.%s%s" % (c, "Left" if idx == 0 else "Right"))[0]
                en = getf(ctx, eng, s, a, c + ".enabled")[0]
                routed.append(z3.And(r, en))
            silent.append(z3.And(s.pcond(), z3.Not(z3.Or(*routed)), z3.Not(z3.fpIsZero(v))))
        lem.add("lemma:mix:%s:one-send-per-side-in-order" % side, z3.Or(*shape) if shape else z3.BoolVal(False))
        lem.add("lemma:mix:%s:finite-and-in-0-1" % side, z3.Or(*bound) if bound else z3.BoolVal(True))
        lem.add("lemma:mix:%s:zero-when-nothing-routed" % side, z3.Or(*silent) if silent else z3.BoolVal(True))
    # routing independence: change every field of channel k; with its routing bit clear the sample is unchanged
    for k, c in enumerate(("ch1", "ch2", "ch3", "ch4")):
        for idx, sidename in ((0, "Left"), (1, "Right")):
            st2 = st0.fork()
            cptr = getf(ctx, eng, st2, a, c)[0]
            tid = st2.otype[cptr.obj]
            fresh = w.sym(tid, "other." + c, cptr.obj, ())
            # keep the pointer structure (embedded *sweep), replace scalars
            old = st2.heap[cptr.obj]
            from engine.core import StructV, is_z3
            items = [n if is_z3(n) or not isinstance(n, Ptr) else o for o, n in zip(old.items, fresh.items)]
            items = [o if isinstance(o, Ptr) else n for o, n in zip(old.items, items)]
            st2.heap[cptr.obj] = StructV(items)
            env2 = ce.param_env(ctx.prog.func(A + "takeSample"), [a])
            st2.pc.append(ce.ev.as_bool(ce.ev.eval(__import__("engine.vsl", fromlist=["parse"]).parse("apuOK(a)"), env2, st2, st2)))
            other = run(st2)
            viol = []
            for (s1, sends1) in base:
                for (s2, sends2) in other:
                    if len(sends1) != 2 or len(sends2) != 2:
                        continue
                    rbit = getf(ctx, eng, s1, a, "control.%s%s" % (c, sidename))[0]
                    v1, v2 = sends1[idx][2], sends2[idx][2]
                    viol.append(z3.And(s1.pcond(), s2.pcond(), z3.Not(rbit), z3.Not(z3.fpEQ(v1, v2))))
            lem.add("lemma:mix:%s-independent-of-unrouted-%s" % (sidename.lower(), c), z3.Or(*viol) if viol else z3.BoolVal(True))
    lem.stats = dict(eng.stats)
    return lem


def pacing_lemma(ctx, eng, ce):
    """over the contract of tickClock: exactly one stereo sample per 95 clock cycles"""
    lem = Lem()
    # residue r = ticks mod 95 (ticks+1 does not wrap below 2^62, so the residue advances by one modulo 95)
    t = z3.BitVec("r", 8)
    hyp = z3.ULT(t, 95)
    fires = t == 0
    rank = z3.URem(95 - t, 95)     # clocks until the next sample
    t1 = z3.URem(t + 1, 95)
    rank1 = z3.URem(95 - t1, 95)
    lem.add("lemma:pacing:fires-iff-rank-zero", z3.And(hyp, fires != (rank == 0)))
    lem.add("lemma:pacing:rank-decreases", z3.And(hyp, z3.Not(fires), rank1 != rank - 1))
    lem.add("lemma:pacing:rank-reset-to-94", z3.And(hyp, fires, rank1 != 94))
    lem.covers.append(("lemma:pacing#cover", hyp))
    return lem


# ------------------------------------------------------------------ C21
def lfsr_spec_orbit(ctx, eng, ce):
    """finite computation on the SPECIFICATION functions lfsr15 / lfsr7 (facts about the oracle, not about the code):
    from the state after a trigger the 15-bit sequence has period 32767 and the 7-bit one period 127 on the output bit"""
    lem = Lem()

    def l15(x):
        return (x >> 1) | (((x ^ (x >> 1)) & 1) << 14)

    def l7(x):
        return (l15(x) & ~0x40 & 0xffff) | (((x ^ (x >> 1)) & 1) << 6)

    def period(step, x0, mask):
        seen = {}
        x = x0
        n = 0
        seq = []
        while (x & mask) not in seen:
            seen[x & mask] = n
            seq.append((~x) & 1)
            x = step(x)
            n += 1
        start = seen[x & mask]
        cyc = seq[start:]
        # minimal period of the output-bit sequence
        L = len(cyc)
        for p in range(1, L + 1):
            if L % p == 0 and all(cyc[i] == cyc[i % p] for i in range(L)):
                return p, L
        return L, L
    p15, s15 = period(l15, 0x7fff, 0x7fff)
    p7, s7 = period(l7, 0x7fff, 0x7f)
    lem.add("spec:lfsr15-output-period-32767", z3.BoolVal(not (p15 == 32767 and s15 == 32767)), info={"detail": "period %d, state cycle %d" % (p15, s15)})
    lem.add("spec:lfsr7-output-period-127", z3.BoolVal(not (p7 == 127 and s7 == 127)), info={"detail": "period %d, state cycle %d" % (p7, s7)})
    lem.notes.append("spec orbit: lfsr15 period %d (cycle %d), lfsr7 period %d (cycle %d)" % (p15, s15, p7, s7))
    # period lemma over the countdown contract (all three channels): steps are exactly P calls apart
    for nm, w_ in (("square", 16), ("wave", 16), ("noise", 32)):
        P = z3.BitVec("P_" + nm, w_)
        t = z3.BitVec("t_" + nm, w_)
        hyp = z3.And(z3.UGE(P, 1), z3.ULT(t, P))
        t1 = z3.If(t == 0, P - 1, t - 1)
        lem.add("lemma:period:%s:timer-stays-below-period" % nm, z3.And(hyp, z3.Not(z3.ULT(t1, P))))
        lem.add("lemma:period:%s:countdown" % nm, z3.And(hyp, t != 0, t1 != t - 1))
        lem.add("lemma:period:%s:reload" % nm, z3.And(hyp, t == 0, t1 != P - 1))
    lem.covers.append(("lemma:period#cover", z3.BoolVal(True)))
    return lem


def register_semantics_tasks(ctx):
    """the contracts of the sound register handlers, trigger functions and length/sweep clocks (status bits, length counters, DAC
    rule, extra length clock, sweep): C19 owns them, and the other APU properties, whose lemmas talk about the same state, carry
    them as obligations too"""
    import props.C19 as c19
    from engine.driver import Task
    ts = [Task(f, f, keep=c19.KEEP) for f in c19.FU]
    ts.append(Task("(*audio.square).trigger[ch1]", "(*audio.square).trigger", variant="with-sweep", keep=c19.KEEP))
    ts.append(Task("(*audio.square).trigger[ch2]", "(*audio.square).trigger", variant="no-sweep", overrides={"s.sweep": nil_value}, keep=c19.KEEP))
    ts += [Task(A + f, A + f, overrides=OV, keep=c19.KEEP) for f in c19.AU]
    return ts
