"""C12 - the timer counts, overflows and reloads as the DMG timer.
Every method of timer.Timer is verified against its contract in /repo/gameboy/timer/contracts_verif.go:
one-step refinement of the statement's timer machine + the inductive representation invariant Inv."""
from engine.driver import run_property, Task
from props.common import filter_tasks

MANIFEST = {
    "level": "proof",
    "text": "Every method of timer.Timer (New, EndMachineCycle, Reset, WriteDIV/TAC/TIMA/TMA, ReadDIV/TIMA/TMA/TAC) is verified against a contract that is the one-step transition of the statement's timer machine (16-bit counter +4, falling-edge detector on the TAC-selected bit, overflow -> one cycle at 0x00 -> reload, cancel/ignore/TMA-forwarding rules, one interrupt per overflow) plus the inductive representation invariant Inv; holds for all 2^16 x 2^8^3 x flags states and hence, by induction over Inv, for every interleaving of cycles and register writes of any length.",
    "note": "Trusted: go/ssa construction, the engine's bit-vector semantics of SSA, z3/cvc5. Assumed: the timer is only driven through its exported methods; intra-cycle write timing is abstracted to machine-cycle granularity. The interrupt request wiring (runFrame -> RequestTimer) is C26's obligation.",
    "technique": "function contracts (requires/ensures/assigns + representation invariant) on the real go/ssa, VCs discharged by z3",
    "design_ref": "DESIGN.md section 4 C12",
}

T = "(*timer.Timer)."
FUNCS = ["timer.New", T + "EndMachineCycle", T + "Reset", T + "WriteDIV", T + "WriteTAC", T + "WriteTIMA", T + "WriteTMA",
         T + "ReadDIV", T + "ReadTIMA", T + "ReadTMA", T + "ReadTAC"]

ASSUME = [
    "go/ssa construction (x/tools v0.29.0) and the engine's bit-vector semantics of the SSA subset are trusted",
    "the timer is driven only through its exported methods (EndMachineCycle once per machine cycle, register writes in between), as gameboy.runFrame and memory.Mapper do",
    "TIMA/TMA/DIV/TAC writes on hardware take effect inside a machine cycle; the contract specifies what is observable at machine-cycle granularity (after the next EndMachineCycle)",
]
TRUSTED = ["golang.org/x/tools/go/ssa v0.29.0", "z3 4.8.12 / z3 5.1.0 / cvc5 1.0.3", "/verif/engine (VC generator)", "go1.23.5 toolchain (replays)"]


def tasks(ctx):
    return filter_tasks([Task(f, f) for f in FUNCS])


# components whose representation invariants the lemmas above assume in every reachable state (engine/closure.py adds
# the preservation obligations of all their functions)
tasks.invariant_packages = ('timer',)


def run(tier, seed):
    return run_property("C12", tasks, "proof", tier, seed, ASSUME, TRUSTED)
