"""C04 - interrupts are dispatched by priority exactly when enabled and requested."""
from engine.driver import run_property, Task, LemmaTask
from props.common import filter_tasks, TRUSTED, BASE_ASSUME
import props.cpu_common as cc

MANIFEST = {
    "level": "proof",
    "text": "All 24 methods of interrupts.Interrupts are verified against exact functional contracts (ReadIF = 0xE0|bits, Pending = IE&IF&0x1F != 0, ...). Over those contracts and the real next/checkInterrupts/handleInterrupt/rst/push code: L-dispatch - from any boundary state with IME set and IE&IF != 0 (IE, IF, registers symbolic) exactly 5 ExecuteMachineCycle calls later PC is 0x40+8*prio(IE&IF), PCh/PCl were written to SP-1/SP-2, SP decreased by 2, IME is clear, exactly the IF bit of the highest-priority pending interrupt is cleared, IE and all registers are unchanged and no opcode was fetched; L-nodispatch - the frame aspect of every opcode lemma (C01) proves that without IME&&pending the boundary leaves IF/IE/IME untouched and executes the instruction at PC; DI and RETI take effect immediately (opcode lemmas 0xF3, 0xD9); L-EI-delay - after EI with a request pending, the following instruction is fetched and executed before the dispatch, which then happens at the next boundary; EI;DI dispatches nothing. All lemmas quantify over every boundary state, including a pending delayed enable with IME either way: the dispatch lemma requires that no delayed enable survives a dispatch (IME stays clear inside the handler), and each opcode lemma uses the master enable in force (IME or an EI whose delay ends with this fetch). The bus is not opaque for the two addresses the CPU itself consults: a store to FFFF or FF0F performed by an instruction or by the dispatch's pushes has the WriteIE / WriteIF effect on the interrupt registers, both in the executed code's world and in the specification, so a stack placed on IE/IF is covered (the vector is chosen from the registers as they are at the boundary, before the pushes).",
    "note": "Same trusted base as C01. Hardware raising further IF bits during the 5 dispatch cycles is outside the lemma (Interrupts is only modified by the CPU in that window). A built-in canary obligation (dispatch keeps IME) must fail on every run.",
    "technique": "function contracts for package interrupts + sequence lemmas over the real go/ssa of the CPU boundary logic; z3",
    "design_ref": "DESIGN.md section 4 C04",
}
I = "(*interrupts.Interrupts)."
IFUNCS = ["Enabled", "Enable", "Disable", "WriteIE", "ReadIE", "WriteIF", "ReadIF", "RequestJoypad", "RequestSerial", "RequestTimer",
          "RequestStat", "RequestVblank", "ResetJoypad", "ResetSerial", "ResetTimer", "ResetStat", "ResetVblank", "JoypadPending",
          "SerialPending", "TimerPending", "StatPending", "VblankPending", "Pending"]


def tasks(ctx):
    ts = [Task("interrupts.New", "interrupts.New")] + [Task(I + f, I + f) for f in IFUNCS]
    ts.append(LemmaTask("lemma:interrupts", cc.interrupt_lemmas, ["(*cpu.CPU).next", "(*cpu.CPU).checkInterrupts", "(*cpu.CPU).handleInterrupt",
                                                                  "(*cpu.CPU).rst$1", "(*cpu.CPU).push$1", "(*cpu.CPU).ei", "(*cpu.CPU).di", "(*cpu.CPU).reti"]))
    # no-dispatch + DI/RETI: the frame aspect of every opcode lemma
    ts += [cc.opcode_task("C04", ch, i) for i, ch in enumerate(cc.opcode_chunks(16))]
    # "otherwise no dispatch happens and IF is untouched" also at the boundary where a halted CPU wakes up: with IME clear nothing
    # is dispatched, with IME set the dispatch is the documented one (the wake-up clauses of the HALT lemmas)
    t = LemmaTask("lemma:halt", cc.halt_lemmas, ["(*cpu.CPU).checkInterrupts", "(*cpu.CPU).handleInterrupt", "(*cpu.CPU).next"])
    t.keep = lambda name: "halt-wake" in name or "halt-executed" in name or "canary" in name
    ts.append(t)
    return filter_tasks(ts)


# components whose representation invariants the lemmas above assume in every reachable state (engine/closure.py adds
# the preservation obligations of all their functions)
tasks.invariant_packages = ('interrupts',)


def run(tier, seed):
    return run_property("C04", tasks, "proof", tier, seed, BASE_ASSUME + ["spec/sm83.py is the oracle for the per-opcode IME effect"], TRUSTED)
