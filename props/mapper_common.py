"""Address decoder lemmas (C06, C07, C11): the real Mapper.Read / Mapper.Write against the documented memory map."""
import z3
from engine.core import State, Ptr, Iface, StructV, ArrV, ZArr, SliceV, Closure, is_z3, concrete_bool, Unsupported
from engine.verify import World, frame_obligations
from engine.driver import Lem, LemmaTask, Task
from engine import vsl
from props.common import nil_value
from props.cpu_common import same_value

M = "(*memory.Mapper)."
MBC_VALID = {"none": "validNone", "mbc1": "valid1", "mbc2": "valid2", "mbc3": "valid3", "mbc5": "valid5"}


def ptr_tid(prog, short_name):
    from engine.prog import short
    for t in prog.types:
        if t["k"] == "ptr" and short(t["s"]) == "*" + short_name:
            return t["id"]
    raise KeyError(short_name)


def mbc_override(kind):
    def ov(world, tid, nm, oid, path):
        p = world.p
        st_tid = p.named["memory." + kind]
        ptr = world.new_object(st_tid, "mbc")
        return Iface(ptr_tid(p, "memory." + kind), ptr)
    return ov


def mapper_world(ctx, eng, ce, kind="mbc1", extra=None, ov_extra=None):
    st = State()
    ctx.seed_globals(st)
    ov = {"Audio.ch2.sweep": nil_value, "Mapper.mbc": mbc_override(kind)}
    ov.update(ov_extra or {})
    w = World(eng, st, ov)
    m = w.component("memory.Mapper")
    eng.ev = ce
    eng.contracts = ce.contracts
    env = {"m": vsl.TV(m, ce.ev.ty_of(ptr_tid(ctx.prog, "memory.Mapper")))}
    for text in ["worldOK(m)", "%s(m.mbc)" % MBC_VALID[kind]] + list(extra or []):
        st.pc.append(ce.ev.as_bool(ce.ev.eval(vsl.parse(text), env, st, st)))
    return st, w, m, env


def comp(w, name):
    return w.component(name)


# the documented DMG memory map: (class name, lo, hi, component type, read method, write method)
# None as method = plain memory / unmapped handled specially
def memory_map():
    R = []
    R.append(("cart-rom", 0x0000, 0x7FFF, "mbc", "Read", "Write"))
    R.append(("vram", 0x8000, 0x9FFF, "ppu.PPU", "ReadVideoRAM", "WriteVideoRAM"))
    R.append(("cart-ram", 0xA000, 0xBFFF, "mbc", "Read", "Write"))
    R.append(("wram", 0xC000, 0xDFFF, "plain:internalRAM:0xc000", None, None))
    R.append(("echo", 0xE000, 0xFDFF, "plain:internalRAM:0xe000", None, None))
    R.append(("oam", 0xFE00, 0xFEFF, "oam.OAM", "Read", "Write"))
    regs = [(0xFF00, "controller.Controller", "JOYP"), (0xFF01, "serial.Serial", "SB"), (0xFF02, "serial.Serial", "SC"),
            (0xFF04, "timer.Timer", "DIV"), (0xFF05, "timer.Timer", "TIMA"), (0xFF06, "timer.Timer", "TMA"), (0xFF07, "timer.Timer", "TAC"),
            (0xFF0F, "interrupts.Interrupts", "IF")]
    for a, nm in [(0xFF10, "NR10"), (0xFF11, "NR11"), (0xFF12, "NR12"), (0xFF13, "NR13"), (0xFF14, "NR14"), (0xFF16, "NR21"), (0xFF17, "NR22"),
                  (0xFF18, "NR23"), (0xFF19, "NR24"), (0xFF1A, "NR30"), (0xFF1B, "NR31"), (0xFF1C, "NR32"), (0xFF1D, "NR33"), (0xFF1E, "NR34"),
                  (0xFF20, "NR41"), (0xFF21, "NR42"), (0xFF22, "NR43"), (0xFF23, "NR44"), (0xFF24, "NR50"), (0xFF25, "NR51"), (0xFF26, "NR52")]:
        regs.append((a, "audio.Audio", nm))
    for a, nm in [(0xFF40, "LCDC"), (0xFF41, "STAT"), (0xFF42, "SCY"), (0xFF43, "SCX"), (0xFF44, "LY"), (0xFF45, "LYC"), (0xFF47, "BGP"),
                  (0xFF48, "OBP0"), (0xFF49, "OBP1"), (0xFF4A, "WY"), (0xFF4B, "WX")]:
        regs.append((a, "ppu.PPU", nm))
    regs.append((0xFF46, "oam.OAM", "DMA"))
    regs.append((0xFFFF, "interrupts.Interrupts", "IE"))
    for a, c, nm in regs:
        R.append((nm, a, a, c, "Read" + nm, "Write" + nm))
    R.append(("wave-ram", 0xFF30, 0xFF3F, "audio.Audio", "ReadWaveRAM", "WriteWaveRAM"))
    for nm, lo, hi in [("unmapped-ff03", 0xFF03, 0xFF03), ("unmapped-ff08", 0xFF08, 0xFF0E), ("unmapped-ff15", 0xFF15, 0xFF15),
                       ("unmapped-ff1f", 0xFF1F, 0xFF1F), ("unmapped-ff27", 0xFF27, 0xFF2F), ("unmapped-ff4c", 0xFF4C, 0xFF7F)]:
        R.append((nm, lo, hi, "unmapped", None, None))
    R.append(("hram", 0xFF80, 0xFFFE, "plain:zeroPage:0xff80", None, None))
    return R


def map_is_partition():
    """the classes cover 0000-FFFF exactly once (a fact about the specification table)"""
    seen = [0] * 0x10000
    for (_, lo, hi, *_r) in memory_map():
        for a in range(lo, hi + 1):
            seen[a] += 1
    return all(x == 1 for x in seen)


def heaps_differ(eng, s1, s2, skip=()):
    v = []
    for oid, a in s1.heap.items():
        if oid in skip or oid not in s2.heap:
            continue
        b = s2.heap[oid]
        if a is b:
            continue
        v.append(same_value(eng, a, b) if not isinstance(a, ZArr) else (a.term != b.term if not a.term.eq(b.term) else z3.BoolVal(False)))
    return z3.Or(*v) if v else z3.BoolVal(False)


def same_value_z(eng, a, b):
    return same_value(eng, a, b)


def call(ctx, eng, st, fn, args):
    return eng.call_function(st, ctx.prog.func(fn).name, args)


def handler_call(ctx, eng, w, m, st, cls, method, addr, value=None):
    """the documented handler of an address class executed directly (the reference for the decoder)"""
    name, lo, hi, comp_, rd, wr = cls
    p = ctx.prog
    if comp_ == "mbc":
        mb = eng.load(st, Ptr(m.obj, tuple(i for i, _ in p.field_index(p.named["memory.Mapper"], "mbc"))))
        fn = p.methods[p.types[mb.t]["s"]][method]
        args = [mb.v, addr] + ([value] if value is not None else [])
        return eng.call_function(st, fn, args)
    recv = w.component(comp_)
    short_t = "(*%s)." % comp_
    f = p.func(short_t + method)
    args = [recv]
    if len(f.params) - 1 == (2 if value is not None else 1):
        args.append(addr)
    if value is not None:
        args.append(value)
    return eng.call_function(st, f.name, args)


def routing_task(kind, cls, prop):
    name, lo, hi, comp_, rd, wr = cls

    def run(ctx, eng, ce):
        lem = Lem()
        # the serial port has a writer attached (an environment object whose Write calls are ghost output events): without one
        # a lost SB write would be unobservable
        from props.common import ext_iface
        st0, w, m, env = mapper_world(ctx, eng, ce, kind, ov_extra=({"Serial.writer": ext_iface("writer")} if comp_ == "serial.Serial" else None))
        p = ctx.prog
        # callee contracts are NOT used here: both sides are the real code
        eng.modular = set()
        addr = z3.BitVecVal(lo, 16) if lo == hi else z3.BitVec("addr", 16)
        if lo != hi:
            st0.pc.append(z3.And(z3.UGE(addr, lo), z3.ULE(addr, hi)))
        value = z3.BitVec("value", 8)
        lem.covers.append(("lemma:decode[%s]:%s#cover" % (kind, name), st0.pcond()))
        mtid = p.named["memory.Mapper"]
        for direction in ("read", "write"):
            eng.terminals, eng.obligs = [], []
            sA = st0.fork()
            outsA = call(ctx, eng, sA, M + ("Read" if direction == "read" else "Write"), [m, addr] + ([value] if direction == "write" else []))
            termA = list(eng.terminals)
            obA = list(eng.obligs)
            eng.terminals, eng.obligs = [], []
            sB = st0.fork()
            if comp_.startswith("plain:"):
                _, field, base = comp_.split(":")
                fptr = Ptr(m.obj, tuple(i for i, _ in p.field_index(mtid, field)))
                idx = z3.ZeroExt(48, addr - int(base, 0))
                arr = eng.load(sB, fptr)
                if direction == "read":
                    outsB = [(sB, z3.Select(arr.term, idx))]
                else:
                    eng.store(sB, fptr, ZArr(z3.Store(arr.term, idx, value), arr.et, arr.n))
                    outsB = [(sB, None)]
            elif comp_ == "unmapped":
                outsB = [(sB, z3.BitVecVal(0xFF, 8) if direction == "read" else None)]
            else:
                outsB = handler_call(ctx, eng, w, m, sB, cls, rd if direction == "read" else wr, addr, value if direction == "write" else None)
            termB = list(eng.terminals)
            viol = []
            for (s1, v1) in outsA:
                for (s2, v2) in outsB:
                    both = z3.And(s1.pcond(), s2.pcond())
                    d = [heaps_differ(eng, s1, s2)]
                    if direction == "read":
                        d.append(v1 != v2)
                    if len(s1.trace) != len(s2.trace):
                        d.append(z3.BoolVal(True))
                    else:
                        for ea, eb in zip(s1.trace, s2.trace):
                            for x, y in zip(ea[1:], eb[1:]):
                                if is_z3(x) and is_z3(y):
                                    d.append(same_value(eng, x, y))
                    viol.append(z3.And(both, z3.Or(*d)))
            # every path of the handler must be matched by the decoder: coverage of the handler's outcomes
            covA = z3.Or(*[s.pcond() for s, _ in outsA]) if outsA else z3.BoolVal(False)
            for (s2, _) in outsB:
                viol.append(z3.And(s2.pcond(), z3.Not(covA)))
            ob = lem.add("lemma:decode[%s]:%s:%s-routed-to-documented-handler" % (kind, name, direction), z3.Or(*viol) if viol else z3.BoolVal(True),
                         info={"detail": "class %s %04X-%04X -> %s.%s" % (name, lo, hi, comp_, rd if direction == "read" else wr)})
            # crash freedom of the decoder path itself (C11): panics only where the handler itself would panic
            pv = [t.state.pcond() for t in termA if t.kind == "panic"] + [o.viol for o in obA if o.kind == "no-panic"]
            ob2 = lem.add("lemma:decode[%s]:%s:%s-no-panic" % (kind, name, direction), z3.Or(*pv) if pv else z3.BoolVal(False))
            if not pv:
                ob2.trivial = True
        lem.stats = dict(eng.stats)
        return lem
    return LemmaTask("decode[%s]:%s" % (kind, name), run, [M + "Read", M + "Write"])


def partition_task():
    def run(ctx, eng, ce):
        lem = Lem()
        lem.add("spec:memory-map-classes-partition-the-address-space", z3.BoolVal(not map_is_partition()))
        return lem
    return LemmaTask("spec:partition", run, ["spec memory map (oracle sanity)"])


# ------------------------------------------------------------------ C07: a write changes only the documented state
SOUND = {"NR10", "NR11", "NR12", "NR13", "NR14", "NR21", "NR22", "NR23", "NR24", "NR30", "NR31", "NR32", "NR33", "NR34", "NR41", "NR42", "NR43",
         "NR44", "NR50", "NR51"}


def related(cls, a, b, kind="mbc1"):
    """documented effect relation: may a write to address a (of class cls) change what a read of address b returns?"""
    name, lo, hi = cls[0], cls[1], cls[2]

    def rng(l, h):
        return z3.And(z3.UGE(b, l), z3.ULE(b, h))
    own = b == a
    if name == "cart-rom":
        return z3.Or(rng(0x0000, 0x7FFF), rng(0xA000, 0xBFFF))
    if name == "cart-ram":
        if kind == "none":
            return z3.BoolVal(False)
        if kind == "mbc2":          # 512 cells echoed over the window
            return z3.And(rng(0xA000, 0xBFFF), ((b - a) & 0x01FF) == 0)
        if kind == "mbc3":          # a clock register selected by the RAM bank register is visible at every address of the window
            return rng(0xA000, 0xBFFF)
        return own
    if name == "wram":
        return z3.Or(own, b == a + 0x2000)
    if name == "echo":
        return z3.Or(own, b == a - 0x2000)
    if name in ("vram", "hram", "IE", "oam", "JOYP", "TIMA", "TMA", "TAC", "IF", "STAT", "SCY", "SCX", "LYC", "BGP", "OBP0", "OBP1", "WY", "WX", "DIV"):
        return own
    if name in ("SB", "SC", "LY") or name.startswith("unmapped"):
        return z3.BoolVal(False)
    if name == "LCDC":
        return z3.Or(own, b == 0xFF44, b == 0xFF41)
    if name == "DMA":
        return z3.Or(own, rng(0xFE00, 0xFEFF))
    if name == "NR52":
        return rng(0xFF10, 0xFF3F)
    if name in SOUND:
        r = z3.Or(own, b == 0xFF26)
        if name in ("NR30", "NR31", "NR32", "NR33", "NR34"):
            r = z3.Or(r, rng(0xFF30, 0xFF3F))
        return r
    if name == "wave-ram":
        return rng(0xFF30, 0xFF3F)
    raise KeyError(name)


def merge_outs(eng, outs):
    m = eng.merge_all([(s, {}, v) for (s, v) in outs])
    return [(s, v) for (s, _, v) in m]


def owner_prefixes(cls):
    """names of the objects (World object names) a write to this address class may change, hidden state included"""
    comp = cls[3]
    nm = cls[0]
    if comp == "unmapped":
        return []
    if comp == "mbc":
        return ["mbc", "rtc"]
    if comp.startswith("plain:"):
        return ["Mapper"]
    if comp == "ppu.PPU":
        # LCDC switches the OAM-bug window off with the LCD; nothing else leaves the PPU
        return ["PPU", "OAM"] if nm == "LCDC" else ["PPU"]
    if comp == "oam.OAM":
        return ["OAM"]
    if comp == "serial.Serial":
        return ["Serial"]
    return [comp.split(".")[1]]


def effect_task(kind, cls):
    name, lo, hi = cls[0], cls[1], cls[2]

    def run(ctx, eng, ce):
        lem = Lem()
        st0, w, m, env = mapper_world(ctx, eng, ce, kind)
        eng.modular = set()
        a = z3.BitVecVal(lo, 16) if lo == hi else z3.BitVec("a", 16)
        if lo != hi:
            st0.pc.append(z3.And(z3.UGE(a, lo), z3.ULE(a, hi)))
        v = z3.BitVec("v", 8)
        b = z3.BitVec("b", 16)
        lem.covers.append(("lemma:effect[%s]:%s#cover" % (kind, name), st0.pcond()))
        pre = st0.fork()
        r0s = merge_outs(eng, call(ctx, eng, pre.fork(), M + "Read", [m, b]))
        posts = merge_outs(eng, call(ctx, eng, st0.fork(), M + "Write", [m, a, v]))
        viol = []
        for (sp, _) in posts:
            r1s = merge_outs(eng, call(ctx, eng, sp.fork(), M + "Read", [m, b]))
            for (s0, r0) in r0s:
                for (s1, r1) in r1s:
                    viol.append(z3.And(s0.pcond(), s1.pcond(), z3.Not(related(cls, a, b, kind)), r0 != r1))
        ob = lem.add("lemma:effect[%s]:write-%s-changes-only-documented-locations" % (kind, name), z3.Or(*viol) if viol else z3.BoolVal(True),
                     info={"detail": "write class %s %04X-%04X; read address b symbolic over 0000-FFFF" % (name, lo, hi)})
        if name in SOUND and name not in ("NR50", "NR51"):
            # NR52 is in the effect set of a channel register only through that channel's own status bit, and only in the documented
            # direction: length (NRx1) and frequency-low (NRx3) writes never change it, envelope/DAC (NRx2, NR30) and sweep (NR10)
            # writes can only switch the channel off, the control register NRx4 can do either
            chn = int(name[2])
            own_bit = 1 << (chn - 1)
            nr52 = z3.BitVecVal(0xFF26, 16)
            s0s = merge_outs(eng, call(ctx, eng, pre.fork(), M + "Read", [m, nr52]))
            sv = []
            for (sp, _) in posts:
                for (s1, x1) in merge_outs(eng, call(ctx, eng, sp.fork(), M + "Read", [m, nr52])):
                    for (s0, x0) in s0s:
                        g = z3.And(s0.pcond(), s1.pcond())
                        bad = [((x0 ^ x1) & (0xff ^ own_bit)) != 0]
                        if name[3] in "13":
                            bad.append(x0 != x1)
                        elif name[3] in "02":
                            bad.append(z3.And((x0 & own_bit) == 0, (x1 & own_bit) != 0))
                        sv.append(z3.And(g, z3.Or(*bad)))
            lem.add("lemma:effect[%s]:write-%s-touches-NR52-only-in-its-own-status-bit" % (kind, name), z3.Or(*sv) if sv else z3.BoolVal(True))
        # hidden state too (write-only registers, counters): the write stays inside the component that owns the address -
        # nothing at all changes for an unmapped address
        owner = owner_prefixes(cls)
        allowed = {oid for oid, nm in w.objname.items() if any(nm == o or nm.startswith(o + ".") for o in owner)}
        fv = [z3.And(sp.pcond(), heaps_differ(eng, pre, sp, skip=allowed)) for (sp, _) in posts]
        lem.add("lemma:effect[%s]:write-%s-stays-inside-%s" % (kind, name, "+".join(owner) if owner else "nothing"),
                z3.Or(*fv) if fv else z3.BoolVal(True), info={"detail": "objects that may change: %s" % sorted(allowed)})
        if viol and len(r0s) == 1 and len(posts) == 1:
            from engine.replay2 import script_info
            inf = script_info(w, pre, "github.com/scottyw/tetromino/gameboy/memory", [(M + "Read", [m, b]), (M + "Write", [m, a, v]), (M + "Read", [m, b])],
                              [r0s[0][1], None, r1s[0][1] if len(r1s) == 1 else None], None, [m.obj])
            inf["detail"] = ob.info.get("detail")
            ob.info = inf
        lem.notes.append("effect[%s]:%s: %d post-states, %d/%d read outcomes" % (kind, name, len(posts), len(r0s), len(r1s) if posts else 0))
        lem.stats = dict(eng.stats)
        return lem
    return LemmaTask("effect[%s]:%s" % (kind, name), run, [M + "Write", M + "Read"])


def invariant_tasks(ctx):
    """the lemmas over the bus assume worldOK (the components' representation invariants) in an arbitrary reachable state: its
    preservation by every step of the machine - the four per-cycle entry points and any bus write - is discharged alongside
    (its base case is the power-on lemma)"""
    from engine.driver import Task
    from props.mem_common import keep_labels
    import props.audio_common as ac
    from engine import vsl
    INV = keep_labels({"inv", "ok", "xinv", "valid", "phase", "pal"}, kinds=("requires",))

    def mbc_valid(kind):
        def f(w, st, args):
            ce = w.e.ev
            env = {"m": vsl.TV(args[0], ce.ev.ty_of(ptr_tid(w.p, "memory.Mapper")))}
            return ce.ev.as_bool(ce.ev.eval(vsl.parse("%s(m.mbc)" % MBC_VALID[kind]), env, st, st))
        return f
    ov1 = {"Audio.ch2.sweep": nil_value, "Mapper.mbc": mbc_override("mbc1")}
    ts = [Task(M + "Write[invariants]", M + "Write", overrides=ov1, extra_requires=[mbc_valid("mbc1")], keep=INV),
          Task(M + "EndMachineCycle[mbc3]", M + "EndMachineCycle", variant="mbc3",
               overrides={"Audio.ch2.sweep": nil_value, "Mapper.mbc": mbc_override("mbc3")}, extra_requires=[mbc_valid("mbc3")], keep=INV),
          Task("(*timer.Timer).EndMachineCycle", "(*timer.Timer).EndMachineCycle", keep=INV),
          Task("(*ppu.PPU).EndMachineCycle", "(*ppu.PPU).EndMachineCycle", keep=INV),
          ac.invariant_task("(*audio.Audio).EndMachineCycle")]
    return ts
