"""C09 - cartridge RAM is gated, banked and retained per controller."""
from engine.driver import run_property, Task, LemmaTask
import props.wiring as wr
from props.common import filter_tasks, TRUSTED, BASE_ASSUME
import props.mem_common as mc

MANIFEST = {
    "level": "proof",
    "text": "For each controller Read and Write are verified against contracts with the number of RAM banks K symbolic over the sizes prepareRAM can allocate (1, 4, 8, 16): RAM is enabled exactly by a write with low nibble 0xA; while disabled A000-BFFF reads 0xFF and a write assigns nothing; while enabled a read returns and a write updates exactly cell [bank mod K][addr-A000] (MBC1 bank = mode ? bank2 : 0, MBC3/MBC5 4-bit bank register, MBC2 512 half-bytes echoed with the upper nibble reading 1 for every cell); the assigns clauses name only that cell, so every other cell of every bank keeps its contents across enable/disable and bank switches (retention as a frame condition); a ROM-only cartridge reads 0xFF at A000-BFFF. DumpRAM is proved to return the stored banks in order (loop invariants). prepareRAM is verified against the declared-size table (header code 02 -> 1 bank, 03 -> 4, 04 -> 16, 05 -> 8, none/MBC2 -> 1). The controller constructors are proved to start with cartridge RAM disabled, bank 0, holding the RAM banks they were given. The real newMBC is executed symbolically for every header with the page builders abstract: prepareRAM is given the header's own cartridge-type and RAM-size bytes (and prepareROM the ROM-size byte and the whole image), and the controller's rom/ram fields are exactly the slices the builders returned (lemma:controller).",
    "note": "Trusted: go/ssa, engine SSA semantics (z3 arrays), z3/cvc5. validN comes from construction (C11). 'A single 8 KiB bank when the header declares none' is prepareRAM's default arm (C11 construction obligations).",
    "technique": "function contracts + frame conditions (per-cell assigns) + representation invariant on the real go/ssa; z3",
    "design_ref": "DESIGN.md section 4 C09",
}
LABELS = {"ram", "gated", "open", "ramg", "ramb", "ramwrite", "regskeep", "valid", "ramkeep", "ramrange"}


def tasks(ctx):
    ts = mc.mbc_rw_tasks(ctx, keep=mc.keep_labels(LABELS))
    ts.extend(mc.dump_tasks(ctx))
    ts.extend(mc.prepare_tasks(ctx, ("memory.prepareRAM",)))
    ts.extend(mc.constructor_tasks(ctx))
    # the bank count the controller ends up with is the one prepareRAM builds for the header's own type and RAM-size bytes
    ts.append(LemmaTask("lemma:controller", lambda c, e, ce: wr.controller_lemma(c, e, ce, two=False), ["memory.newMBC"]))
    return filter_tasks(ts)


# components whose representation invariants the lemmas above assume in every reachable state (engine/closure.py adds
# the preservation obligations of all their functions)
tasks.invariant_packages = ('memory',)


def run(tier, seed):
    return run_property("C09", tasks, "proof", tier, seed, BASE_ASSUME, TRUSTED)
