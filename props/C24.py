"""C24 - emulation is deterministic."""
import z3
from engine.driver import run_property, Task, LemmaTask, Lem
from engine.core import State, Ptr, SliceV, Closure, Iface, StructV, ArrV, ZArr, TupleV, ChanV, is_z3
from engine.verify import World
from engine.prog import short
from props.common import filter_tasks, TRUSTED, BASE_ASSUME, scan_lemma, nil_value
import props.mapper_common as mc
import props.cpu_common as cc
import props.ppu_common as pc

MANIFEST = {
    "level": "other",
    "text": "Whole-run determinism is a two-run property; this technique decides it as determinacy of every function in the frame-loop call graph: (1) for every per-cycle and register-level entry point of every component (timer, controller, interrupts, RTC, the five cartridge controllers, Mapper.Read/Write/EndMachineCycle, all of oam, ppu.EndMachineCycle with the renderer inlined and the PPU register handlers, audio.EndMachineCycle and all sound register handlers, and the CPU's ExecuteMachineCycle for every defined opcode with bus reads as declared inputs) the real code is executed symbolically with every callee inlined and the resulting post-state, return value and ghost output trace are checked to be terms over the pre-state symbols and the declared inputs only - the engine introduces a fresh unconstrained symbol for anything else (unknown external, channel receive, map iteration, uninitialised memory), so none reaching the post-state means the post-state is a function of the pre-state; (2) an SSA scan of every function reachable from gameboy.New, runFrame, Run and ButtonAction finds no use of time, math/rand, crypto/rand, os environment/process state, unsafe, goroutines, blocking or multi-way select, channel receive, map iteration or pointer-to-integer conversion. By induction over the frame loop (C26) two runs from equal states with equal inputs stay equal, in one process or in different ones. Power-on: the real gameboy.New is executed symbolically for every Config (ROM file read and cgo outputs abstracted): every scalar reachable from the returned machine is built from constants, the Config and the ROM bytes only, and the machine holds no reference to any package-level object (which an earlier run in the process could have modified). The cartridge controller construction (real newMBC, page builders abstracted) references no package-level object; the one map iteration of the code base is proved order-independent by a scan.",
    "note": "Not a proof about the Go runtime or the cgo display/speakers packages (excluded). The single map iteration in the code base (initInstructionArray building the debug metadata table at package init) is shown order-independent by a scan: every store goes to the current key's own value or array slot, and the JSON keys parse to pairwise distinct bytes; json.Unmarshal allocating one object per key is the trusted library behaviour.",
    "technique": "per-function determinacy check on the strongest postcondition computed from the real go/ssa (syntactic free-symbol check) + SSA scan for nondeterminism sources",
    "design_ref": "DESIGN.md section 4 C24",
}
BANNED_PKGS = ("time.", "math/rand.", "crypto/rand.", "os.Getenv", "os.Environ", "os.Getpid", "os.Hostname", "os.Getwd", "unsafe.", "runtime.", "sync/atomic.",
               "os.LookupEnv", "os.ReadDir", "os.Stat")


def reachable(prog, roots):
    seen = set()
    work = [prog.func(r).name for r in roots if prog.has_func(r)]
    while work:
        n = work.pop()
        if n in seen or n not in prog.funcs:
            continue
        seen.add(n)
        f = prog.funcs[n]
        for b in f.blocks:
            for ins in b["instrs"]:
                if ins["op"] in ("Call", "Defer", "Go"):
                    c = ins["call"]
                    if c.get("static"):
                        work.append(c["static"])
                    for a in c["args"]:
                        if a and a.get("k") == "func":
                            work.append(a["n"])
                    if "invoke" in c:
                        for tn, ms in prog.methods.items():
                            if c["invoke"] in ms:
                                work.append(ms[c["invoke"]])
                elif ins["op"] == "MakeClosure":
                    work.append(ins["fn"])
                else:
                    for key in ("x", "val"):
                        v = ins.get(key)
                        if isinstance(v, dict) and v.get("k") == "func":
                            work.append(v["n"])
    return seen


def map_iteration_scan(ctx):
    """every map iteration of the code base is order-independent: (a) the only function that ranges over a map is
    cpu.initInstructionArray (package init); (b) in it every store goes either to a field of the value of the current key
    or to the slot of the output array indexed by ParseUint(key), and it calls nothing but strconv.ParseUint, noFlags and len;
    (c) the keys of the two JSON maps it is run on parse to pairwise distinct values in 0..255 and are not duplicated in the
    JSON text - so two iterations never write the same location and any order yields the same table"""
    import json, re, os
    p = ctx.prog
    rangers = []
    for f in p.funcs.values():
        if not f.blocks or f.d.get("outofscope") or not f.pkg or "scottyw/tetromino" not in f.pkg:
            continue
        if f.short.startswith(("display.", "(*display.", "speakers.", "(*speakers.")):
            continue
        for b in f.blocks:
            for ins in b["instrs"]:
                if ins["op"] == "Range":
                    rangers.append(f.short)
    rangers = sorted(set(rangers))
    problems = []
    if rangers != ["cpu.initInstructionArray"]:
        problems.append("functions that range over a map or string: %s" % rangers)
    if p.has_func("cpu.initInstructionArray"):
        f = p.func("cpu.initInstructionArray")
        defs = {}
        for b in f.blocks:
            for ins in b["instrs"]:
                if "n" in ins:
                    defs[ins["n"]] = ins
        def is_range_value(v):
            d = defs.get(v.get("n")) if v.get("k") == "reg" else None
            return d is not None and d["op"] == "Extract" and d["idx"] == 2 and defs.get(d["x"].get("n"), {}).get("op") == "Next"
        def is_range_key(v):
            d = defs.get(v.get("n")) if v.get("k") == "reg" else None
            return d is not None and d["op"] == "Extract" and d["idx"] == 1 and defs.get(d["x"].get("n"), {}).get("op") == "Next"
        def from_parse_of_key(v):
            d = defs.get(v.get("n")) if v.get("k") == "reg" else None
            if d is None:
                return False
            if d["op"] == "Convert":
                return from_parse_of_key(d["x"])
            if d["op"] == "Extract" and d["idx"] == 0:
                c = defs.get(d["x"].get("n"), {})
                return c.get("op") == "Call" and c["call"].get("static") == "strconv.ParseUint" and is_range_key(c["call"]["args"][0]) \
                    and c["call"]["args"][1].get("v") == "0"
            return False
        for b in f.blocks:
            for ins in b["instrs"]:
                if ins["op"] == "Store":
                    a = defs.get(ins["addr"].get("n")) if ins["addr"].get("k") == "reg" else None
                    ok = a is not None and ((a["op"] == "FieldAddr" and is_range_value(a["x"])) or
                                            (a["op"] == "IndexAddr" and a["x"].get("k") == "param" and from_parse_of_key(a["i"])))
                    if not ok:
                        problems.append("store at %s is not to the current value or to the slot of the current key" % ins.get("pos"))
                elif ins["op"] == "Call":
                    c = ins["call"]
                    nm = short(c.get("static") or "") or c["fn"].get("n")
                    if nm not in ("strconv.ParseUint", "cpu.noFlags", "len"):
                        problems.append("call of %s inside the iteration" % nm)
                elif ins["op"] in ("MapUpdate", "Send", "Go", "Defer"):
                    problems.append("%s inside the iteration" % ins["op"])
        # the callers: only init, on the two maps decoded from metadataJSON
        src = open(os.path.join(ctx.repo, "gameboy/cpu/instruction_metadata.go")).read()
        m = re.search(r"var metadataJSON = `(.*?)`", src, re.S)
        if not m:
            problems.append("metadataJSON literal not found")
        else:
            dup = []
            def pairs(ps):
                ks = [k for k, _ in ps]
                for k in set(ks):
                    if ks.count(k) > 1:
                        dup.append(k)
                return dict(ps)
            try:
                doc = json.loads(m.group(1), object_pairs_hook=pairs)
                for part in ("unprefixed", "cbprefixed"):
                    vals = [int(k, 0) for k in doc.get(part, {})]
                    if len(set(vals)) != len(vals) or any(v < 0 or v > 255 for v in vals):
                        problems.append("keys of %s do not parse to distinct bytes" % part)
                if dup:
                    problems.append("duplicate JSON keys: %s" % sorted(set(dup))[:5])
            except ValueError as ex:
                problems.append("metadataJSON does not parse: %s" % ex)
    return not problems, "map iterations: %s; problems: %s" % (rangers, problems)


def nondet_scan(ctx):
    p = ctx.prog
    roots = ["gameboy.New", "(*gameboy.Gameboy).runFrame", "(*gameboy.Gameboy).Run", "(*gameboy.Gameboy).Cleanup", "(*controller.Controller).ButtonAction",
             "(*cpu.CPU).OnInput", "(*memory.Mapper).DumpRAM", "(*ppu.PPU).Frame", "(*cpu.CPU).CheckMooneye"]
    fs = reachable(p, roots)
    bad = []
    for n in sorted(fs):
        f = p.funcs[n]
        sh = f.short
        if any(sh.startswith(b) or ("." + b) in sh for b in BANNED_PKGS):
            bad.append((sh, "banned package"))
        if f.d.get("outofscope") or sh.startswith("display.") or sh.startswith("(*display.") or sh.startswith("speakers.") or sh.startswith("(*speakers."):
            continue
        for b in f.blocks:
            for ins in b["instrs"]:
                op = ins["op"]
                if op == "Go":
                    bad.append((sh, "goroutine"))
                elif op == "Select" and (ins["blocking"] or len(ins["states"]) != 1):
                    bad.append((sh, "blocking or multi-way select"))
                elif op == "Select" and sh != "(*gameboy.Gameboy).Run":
                    bad.append((sh, "select"))
                elif op == "UnOp" and ins["uop"] == "<-":
                    bad.append((sh, "channel receive"))
                elif op in ("Range", "Next"):
                    bad.append((sh, "range over map/string"))
                elif op in ("MakeMap", "MapUpdate", "Lookup"):
                    if op != "Lookup" or p.kind(ins["xt"]) == "map":
                        bad.append((sh, "map"))
                elif op == "Convert":
                    ks, kd = p.kind(ins["xt"]), p.basic(ins["t"])
                    if ks == "ptr" or p.basic(ins["xt"]) == "Pointer":
                        bad.append((sh, "pointer to integer"))
    return not bad, "functions reachable from New/runFrame/Run/ButtonAction: %d; nondeterminism sources: %s" % (len(fs), bad or "none")


def free_symbols(vals, limit=2000000):
    """names of uninterpreted constants in a collection of engine values"""
    seen = set()
    names = set()
    work = []

    def push(v):
        if is_z3(v):
            work.append(v)
        elif isinstance(v, ZArr):
            work.append(v.term)
        elif isinstance(v, (StructV, ArrV, TupleV)):
            for x in v.items:
                push(x)
        elif isinstance(v, SliceV):
            for x in (v.off, v.len, v.cap):
                if is_z3(x):
                    work.append(x)
        elif isinstance(v, Ptr):
            for x in v.path:
                if is_z3(x):
                    work.append(x)
        elif isinstance(v, Closure):
            for x in v.bind:
                push(x)
        elif isinstance(v, tuple):
            for x in v:
                push(x)
    for v in vals:
        push(v)
    n = 0
    while work:
        t = work.pop()
        i = t.get_id()
        if i in seen:
            continue
        seen.add(i)
        n += 1
        if n > limit:
            raise RuntimeError("term too large")
        if z3.is_const(t) and t.decl().kind() == z3.Z3_OP_UNINTERPRETED:
            names.add(t.decl().name())
        elif z3.is_quantifier(t):
            work.append(t.body())
        else:
            work.extend(t.children())
    return names


def determinacy_task(fn, overrides=None, args=None, variant="", declared=()):
    def run(ctx, eng, ce):
        lem = Lem()
        st = State()
        ctx.seed_globals(st)
        w = World(eng, st, overrides or {})
        eng.ev = ce
        eng.contracts = ce.contracts
        eng.modular = set()
        eng.check_feas = False
        f = ctx.prog.func(fn)
        av = args(w, st) if args else [w.sym(prm["t"], prm["name"], "arg:" + prm["name"], ()) for prm in f.params]
        pre_syms = free_symbols(list(st.heap.values()) + list(av) + list(st.pc))
        eng.terminals, eng.obligs = [], []
        outs = eng.call_function(st, f.name, av)
        extra = set()
        for (s, v) in outs:
            post = free_symbols(list(s.heap.values()) + [v] + [tuple(e[1:]) for e in s.trace])
            # arrays introduced by copy()/append() carry a defining axiom (pointwise equal to a term over older arrays): determinate
            extra |= {n for n in post - pre_syms if not any(n.startswith(d) for d in declared) and not n.startswith("copy!") and not n.startswith("append!")}
        nm = short(f.name) + (("[" + variant + "]") if variant else "")
        lem.add("determinate:%s" % nm, z3.BoolVal(bool(extra)), info={"detail": "symbols not derived from the pre-state or declared inputs: %s" % sorted(extra)[:10]})
        lem.notes.append("%s: %d outcome(s), %d pre-state symbols" % (nm, len(outs), len(pre_syms)))
        return lem
    return LemmaTask("determinate:" + fn + variant, run, [fn])


def cpu_determinacy(chunk, idx):
    def run(ctx, eng, ce):
        lem = Lem()
        b = cc.make_base(ctx, eng, ce)
        eng.modular = set()       # interrupts inlined too
        pre_syms = free_symbols(list(b.st.heap.values()))
        bad = {}
        for (op, cb) in chunk:
            st = b.st.fork()
            for h in [z3.Not(cc.fld(eng, st, b, "halted")), z3.Not(cc.fld(eng, st, b, "stopped"))]:
                st.pc.append(h)
            eng.terminals, eng.obligs = [], []
            try:
                finals = cc.run_to_boundary(ctx, eng, b, st, [op] if cb is None else [0xCB, cb], maxcalls=8)
            except Exception as ex:
                bad[cc.opname(op, cb)] = "error: %s" % ex
                continue
            for (s, n) in finals:
                post = free_symbols(list(s.heap.values()) + [tuple(e[1:4]) for e in s.trace if e[0] in ("R", "W")])
                extra = {x for x in post - pre_syms if not x.startswith("rd")}
                if extra:
                    bad[cc.opname(op, cb)] = sorted(extra)[:5]
        lem.add("determinate:cpu-opcodes[%d]" % idx, z3.BoolVal(bool(bad)), info={"detail": "opcodes whose result depends on something else than the pre-state and the bytes read from the bus: %s" % bad})
        return lem
    return LemmaTask("determinate:cpu[%d]" % idx, run, ["(*cpu.CPU).ExecuteMachineCycle (per opcode)"])


def tasks(ctx):
    p = ctx.prog
    import props.wiring as wr
    ts = [scan_lemma("scan:no-nondeterminism-source-in-the-frame-loop-call-graph", nondet_scan, ["call graph of New/runFrame/Run/ButtonAction (SSA scan)"]),
          scan_lemma("scan:map-iteration-is-order-independent", map_iteration_scan, ["cpu.initInstructionArray (SSA scan + JSON key check)"]),
          LemmaTask("lemma:controller", lambda c, e, ce: wr.controller_lemma(c, e, ce, two=False), ["memory.newMBC"]),
          LemmaTask("determinate:power-on", wr.power_on_determinacy, ["gameboy.New", "memory.New", "cpu.New", "ppu.New", "audio.New", "(*cpu.CPU).Initialize"])]
    ovA = {"Audio.ch2.sweep": nil_value}
    fns = []
    for f in p.funcs.values():
        if not f.blocks or not f.pkg or "$" in f.short or f.short.endswith(".init") or ".init#" in f.short:
            continue
        pk = f.pkg.rsplit("/", 1)[-1]
        nm = f.d["short"]
        if pk in ("timer", "controller", "interrupts", "serial") and f.d.get("hasrecv"):
            fns.append(f.short)
        elif pk == "oam" and f.d.get("hasrecv") and nm != "TickDMA":
            fns.append(f.short)
        elif pk == "audio" and f.d.get("hasrecv") and p.tname(f.params[0]["t"]) == "*audio.Audio" and nm != "takeSample" and nm != "tickSampler":
            fns.append(f.short)
        elif pk == "ppu" and f.d.get("hasrecv") and nm not in ("Screenshot", "Frame"):
            fns.append(f.short)
        elif pk == "memory" and f.d.get("hasrecv") and p.tname(f.params[0]["t"]) in ("*memory.rtc", "*memory.none", "*memory.mbc1", "*memory.mbc2", "*memory.mbc3", "*memory.mbc5"):
            fns.append(f.short)
    for fn in sorted(set(fns)):
        ov = dict(ovA)
        if fn.startswith("(*serial."):
            continue
        if fn.endswith(".DumpRAM") and fn not in ("(*memory.none).DumpRAM", "(*memory.mbc2).DumpRAM"):
            continue   # loop cut at an invariant: its result is fully specified by the DumpRAM content contract (C09), hence determinate
        ts.append(determinacy_task(fn, overrides=ov))
    ovM = {"Audio.ch2.sweep": nil_value, "Mapper.mbc": mc.mbc_override("mbc1")}
    for fn in ("Read", "Write", "EndMachineCycle"):
        ts.append(determinacy_task(mc.M + fn, overrides=ovM, variant="mbc1"))
    ts.append(determinacy_task("(*oam.OAM).TickDMA", args=pc.tickdma_args, declared=("busbyte",)))
    ts += [cpu_determinacy(ch, i) for i, ch in enumerate(cc.opcode_chunks(16))]
    return filter_tasks(ts)


def extra_cov(ctx, outs):
    return {"explanation": "determinacy of each function = its symbolic post-state (computed from the real go/ssa with all callees inlined) mentions only "
            "pre-state symbols and declared inputs; plus an SSA scan of the frame-loop call graph for nondeterminism sources. See DESIGN.md section 4 C24."}


def run(tier, seed):
    return run_property("C24", tasks, "other", tier, seed, BASE_ASSUME + [
        "determinism of the Go runtime, the compiler and the cgo display/speakers packages is outside the check",
        "encoding/json.Unmarshal is deterministic and allocates a distinct object per map key (package init of cpu)"], TRUSTED, extra_cov=extra_cov)
