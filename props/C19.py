"""C19 - channel status bits and length counters behave as on a DMG."""
from engine.driver import run_property, Task, LemmaTask
from props.common import filter_tasks, TRUSTED, BASE_ASSUME
from props.mem_common import keep_labels
import props.audio_common as ac

MANIFEST = {
    "level": "proof",
    "text": "Turns on only when: every function of package audio other than the three trigger functions and the four NRx4 handlers is proved (frame-style obligation over all of them) never to change a channel's status from off to on, and trigger is proved to leave the channel on iff its DAC is on (for channel 1 with a non-zero sweep shift: and the immediate sweep calculation does not exceed 2047); NRx4 can turn a channel on only with sound powered, bit 7 set and the DAC on. Turns off when: WriteNRx2 / WriteNR30 with the DAC bits clear, WriteNR52 power-off, calculateFrequency > 2047 and tickLength reaching zero are each proved to clear the status bit. Length: WriteNRx1 loads 64-t (256-t), trigger reloads a zero counter with 64 (256), tickLength decrements exactly while length-enabled and non-zero and switches the channel off exactly when the counter reaches zero, tickFrameSequencer clocks the four length counters on every even step and tickClock runs it every 8192 clock cycles (256 Hz), NRx4 applies the extra length clock exactly when length becomes enabled, or the channel is triggered with a reloaded counter, in the first half of a frame-sequencer period; an induction lemma over the tickLength contract gives 'on for exactly L length clocks'. tickSweep is verified against the documented sweep clock (the channel is switched off by either overflow check and by nothing else); a redundant power-on write to NR52 leaves the frame sequencer alone.",
    "note": "Trusted: go/ssa, engine semantics, z3. Deliberate don't-care (DESIGN.md C19): the trigger-time extra clock is also applied when the counter was loaded (not reloaded) with the maximum; the statement does not decide that corner and the contract follows the code there.",
    "technique": "function contracts + a never-turns-on frame sweep over all functions of the package + induction lemma over the length contract; z3",
    "design_ref": "DESIGN.md section 4 C19",
}
FU = ["(*audio.square).tickLength", "(*audio.wave).tickLength", "(*audio.noise).tickLength", "(*audio.square).calculateFrequency",
      "(*audio.wave).trigger", "(*audio.noise).trigger"]
AU = ["WriteNR11", "WriteNR21", "WriteNR31", "WriteNR41", "WriteNR12", "WriteNR22", "WriteNR30", "WriteNR42", "WriteNR14", "WriteNR24", "WriteNR34",
      "WriteNR44", "WriteNR52", "tickFrameSequencer"]
KEEP = keep_labels({"count", "idle", "value", "overflow", "fine", "on", "length", "status", "dac", "off", "lenable", "notrigger", "trigger", "turnon",
                    "seq", "redundant", "step", "envelope", "sweepinit", "level", "flag", "nosweep", "noenvelope", "expire1", "len1", "len2", "len3", "len4", "expire2", "expire3", "expire4", "noturnon", "ok"})


def tasks(ctx):
    ov = ac.OV
    ts = [Task(f, f, keep=KEEP) for f in FU]
    ts.append(Task("(*audio.square).trigger[ch1]", "(*audio.square).trigger", variant="with-sweep", keep=KEEP))
    ts.append(Task("(*audio.square).trigger[ch2]", "(*audio.square).trigger", variant="no-sweep", overrides={"s.sweep": ac.nil_value}, keep=KEEP))
    ts += [Task(ac.A + f, ac.A + f, overrides=ov, keep=KEEP) for f in AU]
    ts.append(Task("(*audio.square).tickSweep", "(*audio.square).tickSweep", keep=keep_labels({"off", "idle"})))
    for fn in ac.chan_funcs(ctx):
        if fn not in ac.TURN_ON_ALLOWED:
            ts.append(ac.never_turns_on_task(fn))
    ts.append(Task(ac.A + "tickClock", ac.A + "tickClock", overrides=ov, keep=keep_labels({"sequencer", "len2", "len3", "ticks"})))
    ts.append(LemmaTask("lemma:length", ac.length_lemma, ["tickLength (contract-level induction lemma)"]))
    return filter_tasks(ts)


# components whose representation invariants the lemmas above assume in every reachable state (engine/closure.py adds
# the preservation obligations of all their functions)
tasks.invariant_packages = ('audio',)


def run(tier, seed):
    return run_property("C19", tasks, "proof", tier, seed, BASE_ASSUME, TRUSTED)
