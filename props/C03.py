"""C03 - memory reads and writes happen in the documented machine cycle."""
from engine.driver import run_property
from props.common import filter_tasks, TRUSTED, BASE_ASSUME
import props.cpu_common as cc

MANIFEST = {
    "level": "proof",
    "text": "In the per-opcode lemmas every bus access performed by the real sub-instructions is a ghost event tagged with the machine cycle (the ordinal of the ExecuteMachineCycle call) in which it happens; for every opcode the list of data accesses (kind, address term, cycle) is proved equal to the documented list (LD A,(nn) read in cycle 4, PUSH writes in 3 and 4, INC (HL) read 2 / write 3, CB (HL) read 3 / write 4, CALL writes 5 and 6, RET cc reads 3 and 4, LD (nn),SP writes 4 and 5, ...), for all register and operand values. Operand fetches from the instruction stream are not constrained in time (the statement speaks of accesses through an address). The accesses aspect compares, for every documented access, its kind, its machine cycle and its address. Outside instructions: a sleeping CPU (HALT, STOP) and the wake-up cycle make no bus access, and an interrupt dispatch makes exactly its two pushes in 5 cycles (clauses of the HALT and dispatch lemmas). The same lemmas prove what the hook is told: every address passed to TriggerWriteCorruption is a value the stepped 16-bit register (BC, DE, HL or SP, by the documented opcode table) holds before one of its steps in that instruction, and opcodes that step no 16-bit register trigger nothing.",
    "note": "Same trusted base and hypotheses as C01. The documented access table is spec/sm83.py (Appendix C of DESIGN.md).",
    "technique": "per-opcode lemmas with a cycle-tagged ghost bus trace over the real go/ssa; z3",
    "design_ref": "DESIGN.md section 4 C03",
}
ASSUME = BASE_ASSUME + ["spec/sm83.py access table is the oracle (documentation-derived)"]


def tasks(ctx):
    ts = [cc.opcode_task("C03", ch, i) for i, ch in enumerate(cc.opcode_chunks(32))]
    # an access the CPU makes in cycle k reaches the addressed location in that same cycle: for plain memory and registers that is
    # the decoder (C06); for OAM, which filters CPU accesses (DMA, mode-2 bug bookkeeping), the Read/Write contracts say that the
    # byte is delivered at once whenever OAM is accessible
    from engine.driver import Task
    ts.append(Task("(*oam.OAM).Write", "(*oam.OAM).Write"))
    ts.append(Task("(*oam.OAM).Read", "(*oam.OAM).Read"))
    # a CPU that executes no instruction makes no access: HALT/STOP idle cycles and the wake-up cycle touch no bus, and the
    # interrupt dispatch makes exactly its two documented pushes
    from engine.driver import LemmaTask
    t = LemmaTask("lemma:halt", cc.halt_lemmas, ["(*cpu.CPU).next", "(*cpu.CPU).ExecuteMachineCycle"])
    t.keep = lambda name: "-idle" in name or "no-bus" in name or "no-fetch" in name or "one-cycle" in name or "then-next-instruction" in name or "canary" in name
    ts.append(t)
    t = LemmaTask("lemma:interrupts", cc.interrupt_lemmas, ["(*cpu.CPU).next", "(*cpu.CPU).handleInterrupt", "(*cpu.CPU).ExecuteMachineCycle"])
    t.keep = lambda name: name.endswith(":stack") or name.endswith(":cycles") or "canary" in name
    ts.append(t)
    return filter_tasks(ts)


def run(tier, seed):
    return run_property("C03", tasks, "proof", tier, seed, ASSUME, TRUSTED)
