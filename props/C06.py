"""C06 - address space and I/O registers read back as on a DMG."""
import z3
from engine.driver import run_property, Task, LemmaTask, Lem
from props.common import filter_tasks, TRUSTED, BASE_ASSUME
from props.mem_common import keep_labels
import props.mapper_common as mc

MANIFEST = {
    "level": "proof",
    "text": "Decoder: for each of the ~70 address classes of the documented DMG memory map (a table in /verif/props/mapper_common.py that is checked to partition 0000-FFFF) and a symbolic address inside the class, the real Mapper.Read and Mapper.Write are proved equivalent (returned byte, every heap location, ghost output trace) to the documented handler of that class executed directly - cartridge controller, VRAM, work RAM with its echo in both directions, OAM, each I/O register's handler, wave RAM, high RAM, IE, and 'reads 0xFF / write changes nothing' for the unmapped I/O addresses; an off-by-one range bound or a register routed to the wrong handler fails for a concrete address. Plain memory: Mapper.Read/Write contracts give store/select semantics for work RAM, echo, high RAM, VRAM and OAM, FEA0-FEFF reading 0x00 and FE00-FEFF reading 0xFF during DMA. Registers: read-after-write lemmas through the real Mapper prove IF=(v&1F)|E0, TAC=v|F8, STAT=(v&78)|80|coincidence/mode, LCDC/SCY/SCX/LYC/WY/WX/BGP/OBP0/OBP1/TMA/TIMA(outside the reload window)/DMA/IE=v, JOYP select bits, SB/SC=FF, DIV=0 and LY unchanged by a write, for every written value and every state satisfying the components' invariants.",
    "note": "Trusted: go/ssa, engine semantics, z3. Decoder lemmas are run for the MBC1 world (all classes) and for the cartridge classes under every controller. Sound register masks are C18's, JOYP low nibble C22's, controller semantics C08/C09's obligations; here only their routing.",
    "technique": "decoder-equivalence lemmas (real Mapper vs documented handler, both executed symbolically) + function contracts + read-after-write lemmas; z3",
    "design_ref": "DESIGN.md section 4 C06",
}


def raw_lemmas(ctx, eng, ce):
    """Read(r) after Write(r, v) through the real Mapper"""
    lem = Lem()
    st0, w, m, env = mc.mapper_world(ctx, eng, ce, "mbc1", extra=["phN(m.timer)"])
    eng.modular = set()
    v = z3.BitVec("v", 8)
    p = ctx.prog

    def fld(st, comp, name):
        ptr = w.component(comp)
        tid = p.named[comp]
        return eng.load(st, Ptr_(ptr.obj, tuple(i for i, _ in p.field_index(tid, name))))
    from engine.core import Ptr as Ptr_

    def b2u(b, sh):
        return z3.If(b, z3.BitVecVal(1 << sh, 8), z3.BitVecVal(0, 8))
    table = {
        0xFF0F: ("IF", lambda s0, s1: (v & 0x1F) | 0xE0),
        0xFFFF: ("IE", lambda s0, s1: v),
        0xFF07: ("TAC", lambda s0, s1: v | 0xF8),
        0xFF06: ("TMA", lambda s0, s1: v),
        0xFF05: ("TIMA", lambda s0, s1: v),
        0xFF04: ("DIV", lambda s0, s1: z3.BitVecVal(0, 8)),
        0xFF40: ("LCDC", lambda s0, s1: v),
        0xFF41: ("STAT", lambda s0, s1: (v & 0x78) | 0x80 | b2u(fld(s0, "ppu.PPU", "coincidence"), 2) | fld(s0, "ppu.PPU", "mode")),
        0xFF42: ("SCY", lambda s0, s1: v), 0xFF43: ("SCX", lambda s0, s1: v), 0xFF45: ("LYC", lambda s0, s1: v),
        0xFF4A: ("WY", lambda s0, s1: v), 0xFF4B: ("WX", lambda s0, s1: v), 0xFF47: ("BGP", lambda s0, s1: v),
        0xFF48: ("OBP0", lambda s0, s1: v), 0xFF49: ("OBP1", lambda s0, s1: v), 0xFF46: ("DMA", lambda s0, s1: v),
        0xFF44: ("LY", lambda s0, s1: fld(s0, "ppu.PPU", "ly")),
        0xFF01: ("SB", lambda s0, s1: z3.BitVecVal(0xFF, 8)), 0xFF02: ("SC", lambda s0, s1: z3.BitVecVal(0xFF, 8)),
    }
    last_r, last_s = [None], [None]
    for addr, (nm, want) in table.items():
        st = st0.fork()
        pre = st.fork()
        viol = []
        a = z3.BitVecVal(addr, 16)
        for (s1, _) in mc.call(ctx, eng, st, mc.M + "Write", [m, a, v]):
            for (s2, r) in mc.call(ctx, eng, s1.fork(), mc.M + "Read", [m, a]):
                viol.append(z3.And(s2.pcond(), r != want(pre, s1)))
                last_r[0], last_s[0] = r, s2
        from engine.replay2 import script_info
        ob = lem.add("lemma:readback:%s" % nm, z3.Or(*viol) if viol else z3.BoolVal(True))
        if viol:
            ob.info = script_info(w, pre, "github.com/scottyw/tetromino/gameboy/memory", [(mc.M + "Write", [m, a, v]), (mc.M + "Read", [m, a])],
                                  [None, last_r[0]], last_s[0], [m.obj])
    # JOYP: bits 6-7 one, bits 4-5 the written select bits
    st = st0.fork()
    viol = []
    a = z3.BitVecVal(0xFF00, 16)
    for (s1, _) in mc.call(ctx, eng, st, mc.M + "Write", [m, a, v]):
        for (s2, r) in mc.call(ctx, eng, s1.fork(), mc.M + "Read", [m, a]):
            viol.append(z3.And(s2.pcond(), (r & 0xF0) != ((v & 0x30) | 0xC0)))
    lem.add("lemma:readback:JOYP-select-bits", z3.Or(*viol) if viol else z3.BoolVal(True))
    lem.covers.append(("lemma:readback#cover", st0.pcond()))
    lem.add("canary:readback-LY-takes-written-value", z3.BoolVal(True), info={"canary": True})
    lem.stats = dict(eng.stats)
    return lem


def oam_plain_lemma(ctx, eng, ce):
    """LCD off (hence, by xinv, the OAM-bug window closed): a CPU machine cycle that writes OAM, reads OAM or moves a 16-bit
    pointer through FE00-FEFF and then ends with oam.Corrupt() leaves OAM = store(OAM, addr, value) resp. unchanged"""
    from engine.core import Ptr
    lem = Lem()
    st0, w, m, env = mc.mapper_world(ctx, eng, ce, "mbc1", extra=["!m.ppu.enabled", "quiet(m.oam)", "!m.oam.dmaRunning"])
    eng.modular = set()
    o = w.component("oam.OAM")
    otid = ctx.prog.named["oam.OAM"]

    def oamarr(s):
        return eng.load(s, Ptr(o.obj, tuple(i for i, _ in ctx.prog.field_index(otid, "oam")))).term
    a = z3.BitVec("a", 16)
    v = z3.BitVec("v", 8)
    st0.pc.append(z3.And(z3.UGE(a, 0xFE00), z3.ULE(a, 0xFEFF)))
    lem.covers.append(("lemma:oam-plain#cover", st0.pcond()))
    A0 = oamarr(st0)
    viol = []
    for (s1, _) in mc.call(ctx, eng, st0.fork(), mc.M + "Write", [m, a, v]):
        for (s2, _) in mc.call(ctx, eng, s1, "(*oam.OAM).Corrupt", [o]):
            want = z3.If(z3.ULT(a, 0xFEA0), z3.Store(A0, z3.ZeroExt(48, a - 0xFE00), v), A0)
            viol.append(z3.And(s2.pcond(), oamarr(s2) != want))
    lem.add("lemma:oam-plain:write-then-end-of-cycle", z3.Or(*viol) if viol else z3.BoolVal(True))
    viol = []
    for (s1, r) in mc.call(ctx, eng, st0.fork(), mc.M + "Read", [m, a]):
        for (s2, _) in mc.call(ctx, eng, s1, "(*oam.OAM).Corrupt", [o]):
            viol.append(z3.And(s2.pcond(), z3.Or(oamarr(s2) != A0, r != z3.If(z3.ULT(a, 0xFEA0), z3.Select(A0, z3.ZeroExt(48, a - 0xFE00)), z3.BitVecVal(0, 8)))))
    lem.add("lemma:oam-plain:read-then-end-of-cycle", z3.Or(*viol) if viol else z3.BoolVal(True))
    viol = []
    for (s1, _) in mc.call(ctx, eng, st0.fork(), "(*oam.OAM).TriggerWriteCorruption", [o, a]):
        for (s2, _) in mc.call(ctx, eng, s1, "(*oam.OAM).Corrupt", [o]):
            viol.append(z3.And(s2.pcond(), oamarr(s2) != A0))
    lem.add("lemma:oam-plain:pointer-move-then-end-of-cycle", z3.Or(*viol) if viol else z3.BoolVal(True))
    lem.stats = dict(eng.stats)
    return lem


def tasks(ctx):
    ts = [mc.partition_task()]
    for cls in mc.memory_map():
        ts.append(mc.routing_task("mbc1", cls, "C06"))
        if cls[3] == "mbc":
            for kind in ("none", "mbc2", "mbc3", "mbc5"):
                ts.append(mc.routing_task(kind, cls, "C06"))
    keepR = keep_labels({"wram", "echo", "hram", "vram", "oam", "unusable", "dmablock", "unmapped", "serial", "pure"})
    keepW = keep_labels({"wram", "echo", "hram", "others", "otherz", "vram", "othervram", "oam", "otheroam", "ok"})
    ov = {"Audio.ch2.sweep": mc.nil_value, "Mapper.mbc": mc.mbc_override("mbc1")}
    ts.append(Task(mc.M + "Read", mc.M + "Read", overrides=ov, keep=keepR, extra_requires=[mbc_valid("mbc1")]))
    ts.append(Task(mc.M + "Write", mc.M + "Write", overrides=ov, keep=keepW, extra_requires=[mbc_valid("mbc1")]))
    # "with the LCD off ... OAM behaves as plain memory": rests on the cross-object invariant oam.corrupt == (LCD on && mode 2)
    import props.ppu_common as pc
    ts += [pc.ppu_task("WriteLCDC", ["xinv", "inv"]), pc.ppu_task("disable", ["0", "window", "inv"]), pc.ppu_task("enable", ["0", "inv"]),
           pc.ppu_task("EndMachineCycle", ["xinv", "inv"])]
    ts.append(LemmaTask("lemma:oam-plain-with-lcd-off", oam_plain_lemma, ["(*oam.OAM).Write", "(*oam.OAM).Read", "(*oam.OAM).Corrupt", "(*oam.OAM).TriggerWriteCorruption"]))
    ts.append(LemmaTask("lemma:readback", raw_lemmas, [mc.M + "Read", mc.M + "Write", "register handlers (inlined)"]))
    # "from power-on": the machine gameboy.New builds satisfies the invariants (worldOK) all of the above are proved under
    import props.wiring as wr
    ts.append(LemmaTask("lemma:power-on", lambda c, e, ce: wr.power_on(c, e, ce, wiring=False), ["gameboy.New", "memory.New", "ppu.New", "oam.New", "audio.New", "timer.New"]))
    ts.extend(mc.invariant_tasks(ctx))
    # "each hardware register reads back the bits last written": the sound registers' read-back lemmas (C18 owns them; FF10-FF3F
    # are hardware registers of this address space too)
    import props.audio_common as ac
    t = LemmaTask("lemma:readback-sound", ac.readback_lemmas, [ac.A + "Write" + r for r in ac.MASKS] + [ac.A + "Read" + r for r in ac.MASKS])
    t.keep = lambda name: "lemma:readback:" in name or "canary" in name
    ts.append(t)
    # ... and keeps reading them back: no other register write (trigger, power, length) rewrites a field that backs a readable bit -
    # the frame clauses of the sound register handlers and trigger functions (C19's contracts)
    names = {x.name for x in ts}
    ts += [x for x in ac.register_semantics_tasks(ctx) if x.name not in names]
    return filter_tasks(ts)


def mbc_valid(kind):
    def f(w, st, args):
        from engine import vsl
        ce = w.e.ev
        env = {"m": vsl.TV(args[0], ce.ev.ty_of(mc.ptr_tid(w.p, "memory.Mapper")))}
        return ce.ev.as_bool(ce.ev.eval(vsl.parse("%s(m.mbc)" % mc.MBC_VALID[kind]), env, st, st))
    return f


def run(tier, seed):
    return run_property("C06", tasks, "proof", tier, seed, BASE_ASSUME + ["the documented DMG memory map (props/mapper_common.py memory_map) is the oracle"], TRUSTED)
