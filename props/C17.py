"""C17 - OAM is only altered by CPU writes, DMA, or the mode-2 OAM bug."""
import z3
from engine.driver import run_property, Task, LemmaTask, Lem
from props.common import filter_tasks, TRUSTED, BASE_ASSUME, scan_lemma
import props.ppu_common as pc
from props.mem_common import keep_labels

MANIFEST = {
    "level": "proof",
    "text": "Frame conditions on the OAM array plus a cross-object invariant: every function of package oam is verified against a contract whose assigns clause lets only Write (the addressed byte), TickDMA and Corrupt touch m.oam; Corrupt is proved to change nothing unless a trigger flag is pending, and the trigger flags are proved to be set (by Read, Write, TriggerWriteCorruption) only while m.corrupt holds; the cross-object invariant xinv 'oam.corrupt == (ppu.enabled && ppu.mode == 2)' is established by ppu.New and preserved by ppu.EndMachineCycle (mode transitions), enable, disable and WriteLCDC, and no oam method other than EnterMode2/ExitMode2 assigns corrupt. SSA scans prove that only package ppu calls EnterMode2/ExitMode2, that the CPU reaches oam only through TriggerWriteCorruption and Corrupt, and memory only through Read/Write/TickDMA/ReadDMA/WriteDMA. Hence with the LCD off (whenever and however it was switched off) no CPU activity alters OAM other than a write's own byte, and the corruption can run only with the LCD on in mode 2. A sleeping CPU (HALT or STOP, nothing pending) is proved to make no bus access and change nothing in a machine cycle, the wake-up cycle of a halted CPU makes none either, and the interrupt dispatch (whose two pushes may go into OAM) runs the hook at the end of each of its bus cycles (lemma:halt-idle, lemma:stop-idle, lemma:halt-wake-*, lemma:dispatch:oambug). The same lemmas prove what the hook is told: every address passed to TriggerWriteCorruption is a value the stepped 16-bit register (BC, DE, HL or SP, by the documented opcode table) holds before one of its steps in that instruction, and opcodes that step no 16-bit register trigger nothing.",
    "note": "Trusted: go/ssa, engine semantics, z3. The content of the four corruption patterns is not specified (the statement only bounds when they may happen); their index safety is C11's obligation.",
    "technique": "frame conditions + cross-object invariant on the real go/ssa, SSA call scans; z3",
    "design_ref": "DESIGN.md section 4 C17",
}


def mode2_callers(ctx):
    c = pc.callers_of(ctx.prog, "(*oam.OAM).")
    users = (c.get("(*oam.OAM).EnterMode2", set()) | c.get("(*oam.OAM).ExitMode2", set()))
    ok = all(u.startswith("(*ppu.PPU).") for u in users)
    return ok, "callers of EnterMode2/ExitMode2: %s" % sorted(users)


def oam_api_users(ctx):
    c = pc.callers_of(ctx.prog, "(*oam.OAM).")
    bad = []
    for callee, users in c.items():
        nm = callee.split(").")[1]
        for u in users:
            if u.startswith("(*cpu.") or u.startswith("cpu."):
                if nm not in ("TriggerWriteCorruption", "Corrupt"):
                    bad.append((u, nm))
            elif u.startswith("(*memory.") or u.startswith("memory."):
                if nm not in ("Read", "Write", "TickDMA", "ReadDMA", "WriteDMA"):
                    bad.append((u, nm))
            elif u.startswith("(*ppu.") or u.startswith("ppu."):
                if nm not in ("PPURead", "EnterMode2", "ExitMode2"):
                    bad.append((u, nm))
    return not bad, "unexpected uses of the oam API: %s" % (bad or "none")


def tasks(ctx):
    O = pc.O
    ts = []
    for f in ["EnterMode2", "ExitMode2", "TriggerWriteCorruption", "Read", "Write", "Corrupt", "PPURead", "startDMA", "WriteDMA", "ReadDMA"]:
        ts.append(Task(O + f, O + f))
    ts.append(Task(O + "TickDMA", O + "TickDMA", args=pc.tickdma_args, setup=lambda w, st, args: None))
    ts.append(Task("oam.New", "oam.New"))
    ts += [pc.ppu_task("EndMachineCycle", ["xinv", "inv"]), pc.ppu_task("enable", ["0", "inv"]), pc.ppu_task("disable", ["0", "window", "inv"]),
           pc.ppu_task("WriteLCDC", ["xinv", "inv"]), Task("ppu.New", "ppu.New", keep=keep_labels({"inv"}))]
    ts.append(scan_lemma("scan:only-ppu-opens-the-oam-bug-window", mode2_callers, ["oam/ppu (package scan)"]))
    ts.append(scan_lemma("scan:oam-api-users", oam_api_users, ["cpu/memory/ppu (package scan)"]))
    # the bookkeeping of the mode-2 bug is applied once per executed machine cycle, after that cycle's accesses (never batched at
    # the end of an instruction, never a cycle late): the ordering aspect of the opcode lemmas
    import props.cpu_common as cc
    ts += [cc.opcode_task("C17", ch, i) for i, ch in enumerate(cc.opcode_chunks(16))]
    # a sleeping CPU (HALT, STOP) makes no bus access at all, so it cannot arm the bug behind the per-cycle hook's back
    t = LemmaTask("lemma:halt", cc.halt_lemmas, ["(*cpu.CPU).next", "(*cpu.CPU).ExecuteMachineCycle"])
    t.keep = lambda name: "-idle" in name or "no-bus" in name or "no-fetch" in name or "oambug" in name or "canary" in name
    ts.append(t)
    # ... and the interrupt dispatch (two pushes, possibly into OAM) runs the hook in each of its bus cycles
    t = LemmaTask("lemma:interrupts", cc.interrupt_lemmas, ["(*cpu.CPU).next", "(*cpu.CPU).handleInterrupt", "(*cpu.CPU).ExecuteMachineCycle"])
    t.keep = lambda name: "oambug" in name or "canary" in name
    ts.append(t)
    return filter_tasks(ts)


# components whose representation invariants the lemmas above assume in every reachable state (engine/closure.py adds
# the preservation obligations of all their functions)
tasks.invariant_packages = ('ppu', 'oam')


def run(tier, seed):
    return run_property("C17", tasks, "proof", tier, seed, BASE_ASSUME, TRUSTED)
