"""Power-on lemma: the real gameboy.New is executed (ROM file read, cartridge controller construction, speakers and display
- the cgo environment - abstracted) for every Config; the object graph it returns is checked structurally:
  * one object per component, and every component that refers to another refers to that same object (the shape every
    other proof assumes for its 'world'),
  * the display (when there is one) is given this machine's controller and this CPU's OnInput,
  * every representation invariant that the per-cycle proofs assume (worldOK without plaOK, which the first-cycle lemma of
    C11 covers) holds in the power-on state: the base case of the induction over machine cycles,
  * two machines built in one process share no mutable object (C25)."""
import os
import z3
from engine.driver import Lem
from engine.core import State, Ptr, Iface, Opaque, ChanV, StructV, Closure
from engine.verify import World
from engine import vsl
from engine.prog import short

POWER_ON = ["Inv(m.timer)", "ppuInv(m.ppu)", "xinv(m.ppu)", "palOK(m.ppu)", "flagsOK(m.oam)", "dmaOK(m.oam)", "rtcOK(m.rtc)",
            "ieHighOK(m.interrupts)", "apuOK(m.audio)", "m.audio.ticks >= 1 && m.audio.frameSeqTicks < 512", "!m.oam.dmaRunning"]


class Built:
    pass


def build(ctx, eng, ce, st, w, tag, cfg):
    p = ctx.prog
    f = p.func("gameboy.New")
    events = []

    def h_rom(e, s, args, site):
        return [(s, World(e, s).sym(p.func("gameboy.readRomFile").results[0], tag + "rom", "ext:%srom" % tag, ()))]

    def h_mbc(e, s, args, site):
        # the cartridge controller is built by newMBC: executed for real (page builders abstracted) by controller_lemma below
        events.append(("newMBC", args))
        return [(s, Iface("ext:mbc", Opaque(tag + "mbc")))]

    def h_prom(e, s, args, site):
        # the page builders are loops over the image (C08/C09/C11 verify them against their contracts): here fresh page slices
        return [(s, World(e, s).sym(p.func("memory.prepareROM").results[0], tag + "pages", "ext:%spages" % tag, ()))]

    def h_pram(e, s, args, site):
        return [(s, World(e, s).sym(p.func("memory.prepareRAM").results[0], tag + "rambanks", "ext:%srambanks" % tag, ()))]

    def h_spk(e, s, args, site):
        t = p.func("speakers.New").results[0]
        return [(s, World(e, s).new_object(p.under(t)["elem"], tag + "speakers"))]

    def h_left(e, s, args, site):
        return [(s, ChanV(tag + "speakers.left"))]

    def h_right(e, s, args, site):
        return [(s, ChanV(tag + "speakers.right"))]

    def h_disp(e, s, args, site):
        t = p.func("display.New").results[0]
        events.append(("display", s.pcond(), list(args)))
        return [(s, World(e, s).new_object(p.under(t)["elem"], tag + "display"))]

    eng.abstract = dict(eng.abstract)
    eng.abstract.update({"gameboy.readRomFile": h_rom, "memory.newMBC": h_mbc, "speakers.New": h_spk,
                         "(*speakers.Speakers).Left": h_left, "(*speakers.Speakers).Right": h_right, "display.New": h_disp})
    outs = eng.call_function(st, f.name, [cfg])
    b = Built()
    b.outs, b.events = outs, events
    return b


def fields(p, st, ptr):
    """name -> value of the struct a pointer refers to"""
    v = st.heap[ptr.obj]
    tid = st.otype[ptr.obj]
    for step in ptr.path:
        v = v.items[step]
        tid = p.struct_fields(tid)[step]["t"] if p.kind(tid) == "struct" else p.under(tid)["elem"]
    return {f["name"]: x for f, x in zip(p.struct_fields(tid), v.items)}


def same(a, b):
    return isinstance(a, Ptr) and isinstance(b, Ptr) and a.obj is not None and a.obj == b.obj and tuple(a.path) == tuple(b.path)


def reachable(st, v, acc):
    """object ids reachable from a value through pointers, slices, interfaces and closures"""
    from engine.core import SliceV, ArrV, TupleV
    if isinstance(v, Ptr):
        if v.obj is not None and v.obj not in acc:
            acc.add(v.obj)
            if v.obj in st.heap:
                reachable(st, st.heap[v.obj], acc)
    elif isinstance(v, (StructV, ArrV, TupleV)):
        for x in v.items:
            reachable(st, x, acc)
    elif isinstance(v, SliceV):
        reachable(st, Ptr(v.obj, ()), acc)
    elif isinstance(v, Iface):
        reachable(st, v.v, acc)
    elif isinstance(v, Closure):
        for x in (v.bind or ()):
            reachable(st, x, acc)
    return acc


def power_on(ctx, eng, ce, prop="C26", invariants=True, wiring=True, two=False, only=None):
    lem = Lem()
    p = ctx.prog
    st = State()
    ctx.seed_globals(st)
    w = World(eng, st)
    eng.ev = ce
    eng.contracts = ce.contracts
    eng.modular = set()
    f = p.func("gameboy.New")
    pre_objs = set(st.heap.keys())
    eng.terminals, eng.obligs = [], []
    cfg = w.sym(f.params[0]["t"], "config", "arg:config", ())
    b = build(ctx, eng, ce, st, w, "", cfg)
    lem.covers.append(("lemma:power-on#cover:New-returns", z3.Or(*[s.pcond() for s, _ in b.outs]) if b.outs else z3.BoolVal(False)))
    # every Config reaches a return: no panic inside New other than the ROM loader's (abstracted here, C11)
    # every Config reaches a return: no panic or exit inside New other than the ROM loader's (abstracted here, C11)
    lem.add("lemma:power-on:New-returns-for-every-config", z3.Or(*[t.state.pcond() for t in eng.terminals]) if (eng.terminals and b.outs) else z3.BoolVal(not b.outs))
    for ob in eng.obligs:
        lem.add("lemma:power-on:%s:%s" % (ob.kind, ob.site), ob.viol)
    bad = {}

    def fail(name, cond):
        bad.setdefault(name, []).append(cond)

    names = ["audio", "controller", "cpu", "interrupts", "ppu", "mapper", "timer"]
    checked = set()
    for (s, v) in b.outs:
        pc = s.pcond()
        if not isinstance(v, Ptr) or v.obj is None:
            fail("result-non-nil", pc)
            continue
        gb = fields(p, s, v)
        if wiring:
            for n in names:
                checked.add("gameboy-has-" + n)
                if not isinstance(gb[n], Ptr) or gb[n].obj is None:
                    fail("gameboy-has-" + n, pc)
            objs = [gb[n].obj for n in names if isinstance(gb[n], Ptr)]
            checked.add("components-are-distinct-objects")
            if len(set(objs)) != len(objs):
                fail("components-are-distinct-objects", pc)
            mp = fields(p, s, gb["mapper"])
            cpu = fields(p, s, gb["cpu"])
            ppu = fields(p, s, gb["ppu"])
            want = [("mapper.audio", mp["audio"], gb["audio"]), ("mapper.controller", mp["controller"], gb["controller"]),
                    ("mapper.interrupts", mp["interrupts"], gb["interrupts"]), ("mapper.ppu", mp["ppu"], gb["ppu"]),
                    ("mapper.timer", mp["timer"], gb["timer"]), ("cpu.mapper", cpu["mapper"], gb["mapper"]),
                    ("cpu.interrupts", cpu["interrupts"], gb["interrupts"]), ("ppu.interrupts", ppu["interrupts"], gb["interrupts"]),
                    ("cpu.oam", cpu["oam"], mp["oam"]), ("ppu.oam", ppu["oam"], mp["oam"])]
            for (n, a, c) in want:
                checked.add("same-object:" + n)
                if not same(a, c):
                    fail("same-object:" + n, pc)
            # the cartridge controller is built around the very clock object the bus steps every machine cycle
            checked.add("same-object:controller's-clock-is-the-mapper's-rtc")
            if not any(ev[0] == "newMBC" and len(ev[1]) > 1 and same(ev[1][1], mp["rtc"]) for ev in b.events):
                fail("same-object:controller's-clock-is-the-mapper's-rtc", pc)
            checked.add("mapper-has-oam-serial-rtc")
            if not all(isinstance(mp[k], Ptr) and mp[k].obj is not None for k in ("oam", "serial", "rtc")):
                fail("mapper-has-oam-serial-rtc", pc)
            # serial output goes to the configured writer
            ser = fields(p, s, mp["serial"])
            checked.add("serial-writer-is-config-writer")
            cw = cfg.items[-1]
            sw = ser["writer"]
            if not (isinstance(sw, Iface) and isinstance(cw, Iface) and sw.t == cw.t and sw.v is cw.v):
                fail("serial-writer-is-config-writer", pc)
            # audio gets the speakers' channels exactly when there are speakers
            au = fields(p, s, gb["audio"])
            checked.add("audio-channels-are-the-speakers-channels")
            has_spk = isinstance(gb["speakers"], Ptr) and gb["speakers"].obj is not None
            l, r = au["l"], au["r"]
            okc = (isinstance(l, ChanV) and isinstance(r, ChanV) and "left" in str(l.id) and "right" in str(r.id)) if has_spk else \
                (not isinstance(l, ChanV) or l.id is None) and (not isinstance(r, ChanV) or r.id is None)
            if not okc:
                fail("audio-channels-are-the-speakers-channels", pc)
        if invariants:
            env = {"m": vsl.TV(gb["mapper"], ce.ev.ty_of(p.struct_fields(s.otype[v.obj])[[x["name"] for x in p.struct_fields(s.otype[v.obj])].index("mapper")]["t"]))}
            for inv in (only or POWER_ON):
                ok = ce.ev.as_bool(ce.ev.eval(vsl.parse(inv), env, s, s))
                checked.add("invariant:" + inv)
                fail("invariant:" + inv, z3.And(pc, z3.Not(ok)))
    if wiring:
        # the display, when created, is handed this machine's controller and this CPU's OnInput: every returned machine
        # with a display is matched by a display.New call with exactly those arguments
        checked.add("display-gets-the-controller-and-OnInput")
        for (s, v) in b.outs:
            gb = fields(p, s, v)
            if not (isinstance(gb["display"], Ptr) and gb["display"].obj is not None):
                continue
            ok = False
            for ev in b.events:
                if ev[0] != "display":
                    continue
                a0, a1 = ev[2][0], ev[2][1]
                if same(a0, gb["controller"]) and isinstance(a1, Closure) and short(a1.fn or "").startswith("(*cpu.CPU).OnInput") \
                        and len(a1.bind or ()) == 1 and same(a1.bind[0], gb["cpu"]):
                    ok = True
            if not ok:
                fail("display-gets-the-controller-and-OnInput", s.pcond())
        checked.add("display-created-unless-video-disabled")
        if not any(ev[0] == "display" for ev in b.events):
            fail("display-created-unless-video-disabled", z3.BoolVal(True))
    for n in sorted(checked):
        vs = bad.get(n, [])
        lem.add("lemma:power-on:" + n, z3.Or(*vs) if vs else z3.BoolVal(False))
    if two and b.outs:
        # a second machine built in the same process (same heap, after the first): no object of the first is reachable
        # from the second except objects that existed before either was built and are never written (checked by the
        # global-store scan) - ownership disjointness, the premise of the frame rule used for C25
        shared, n2, nfirst, empty = set(), 0, 0, False
        glob = set()
        for (s1, v1) in b.outs:
            glob |= (reachable(s1, v1, set()) & pre_objs)
        # objects that exist before New runs are package-level variables (or their backing arrays): a machine that holds a
        # reference to one shares it with every other machine of the process, and starts from whatever they left in it
        lem.add("lemma:power-on:machine-references-no-package-level-object", z3.BoolVal(bool(glob)), info={"detail": "package-level objects reachable from the new machine: %s" % sorted(glob)})
        for (s1, v1) in b.outs:
            first = reachable(s1, v1, set()) - pre_objs
            nfirst = max(nfirst, len(first))
            w2 = World(eng, s1)
            cfg2 = w2.sym(f.params[0]["t"], "config2", "arg:config2", ())
            b2 = build(ctx, eng, ce, s1, w2, "second.", cfg2)
            n2 += len(b2.outs)
            empty = empty or not b2.outs
            for (s2, v2) in b2.outs:
                second = reachable(s2, v2, set()) - pre_objs
                shared |= (first & second)
        lem.add("lemma:power-on:two-machines-share-no-object", z3.BoolVal(bool(shared) or empty),
                info={"detail": "shared objects: %s" % sorted(shared)})
        lem.notes.append("second machine: %d outcomes, up to %d objects per machine, %d shared" % (n2, nfirst, len(shared)))
    lem.notes.append("gameboy.New: %d outcomes, %d terminals (%s)" % (len(b.outs), len(eng.terminals), sorted({t.kind for t in eng.terminals})))
    lem.stats = dict(eng.stats)
    return lem


def power_on_determinacy(ctx, eng, ce):
    """C24: the power-on state is a function of the Config and of the bytes of the ROM file only: every scalar reachable from
    the machine gameboy.New returns is built from constants and those two inputs (no value of a mutable package variable, no
    result of an unmodelled call), and the machine holds no reference to a package-level object (whose contents an earlier
    run in the same process may have changed)"""
    from props.C24 import free_symbols
    lem = Lem()
    p = ctx.prog
    st = State()
    ctx.seed_globals(st)
    w = World(eng, st)
    eng.ev = ce
    eng.contracts = ce.contracts
    eng.modular = set()
    pre_objs = set(st.heap.keys())
    f = p.func("gameboy.New")
    cfg = w.sym(f.params[0]["t"], "config", "arg:config", ())
    eng.terminals, eng.obligs = [], []
    b = build(ctx, eng, ce, st, w, "", cfg)
    extra, glob = set(), set()
    for (s, v) in b.outs:
        objs = reachable(s, v, set())
        glob |= objs & pre_objs
        syms = free_symbols([s.heap[o] for o in objs if o in s.heap])
        extra |= {n for n in syms if not (n.startswith("config") or n.startswith("rom") or n.startswith("copy!") or n.startswith("append!"))}
    lem.add("determinate:power-on-state-depends-on-config-and-rom-only", z3.BoolVal(bool(extra) or not b.outs),
            info={"detail": "other symbols in the power-on state: %s" % sorted(extra)[:10]})
    lem.add("determinate:machine-references-no-package-level-object", z3.BoolVal(bool(glob)),
            info={"detail": "package-level objects reachable from the new machine: %s" % sorted(glob)})
    lem.covers.append(("determinate:power-on#cover", z3.Or(*[s.pcond() for s, _ in b.outs]) if b.outs else z3.BoolVal(False)))
    lem.stats = dict(eng.stats)
    return lem


def controller_lemma(ctx, eng, ce, two=True):
    """the real newMBC with the page builders abstracted to fresh slices (C08/C09/C11 verify them): for every header the
    controller kind is the documented function of the cartridge type byte, the controller is built from fresh objects, its
    arguments (image, clock) and nothing else - no package-level object - and two controllers built one after the other in
    the same heap share nothing but what they were both given"""
    lem = Lem()
    p = ctx.prog
    st = State()
    ctx.seed_globals(st)
    w = World(eng, st)
    eng.ev = ce
    eng.contracts = ce.contracts
    eng.modular = set()
    pre_objs = set(st.heap.keys())
    f = p.func("memory.newMBC")
    KIND = {"none": [0x00], "mbc1": [0x01, 0x02, 0x03], "mbc2": [0x05, 0x06], "mbc3": [0x0f, 0x10, 0x11, 0x12, 0x13],
            "mbc5": [0x19, 0x1a, 0x1b, 0x1c, 0x1d, 0x1e]}

    def mk(tag, st_):
        ww = World(eng, st_)
        rom = ww.sym(f.params[0]["t"], tag + "rom", "arg:%srom" % tag, ())
        rtc = ww.new_object(p.under(f.params[1]["t"])["elem"], tag + "rtc")

        def h_prom(e, s, args, site):
            r = World(e, s).sym(p.func("memory.prepareROM").results[0], tag + "pages", "ext:%spages" % tag, ())
            builder_calls.append(("prepareROM", tag, s.pcond(), list(args), r))
            return [(s, r)]

        def h_pram(e, s, args, site):
            r = World(e, s).sym(p.func("memory.prepareRAM").results[0], tag + "rambanks", "ext:%srambanks" % tag, ())
            builder_calls.append(("prepareRAM", tag, s.pcond(), list(args), r))
            return [(s, r)]
        eng.abstract = dict(eng.abstract)
        eng.abstract.update({"memory.prepareROM": h_prom, "memory.prepareRAM": h_pram})
        outs = eng.call_function(st_, f.name, [rom, rtc])
        return rom, rtc, outs
    eng.terminals, eng.obligs = [], []
    builder_calls = []
    rom, rtc, outs = mk("", st)
    lem.covers.append(("lemma:controller#cover", z3.Or(*[s.pcond() for s, _ in outs]) if outs else z3.BoolVal(False)))
    ct = ce.ev.eval(vsl.parse("rom[0x147]"), {"rom": vsl.TV(rom, ce.ev.ty_of(f.params[0]["t"]))}, st, st).v
    wrong, glob = [], set()
    kinds = {}
    for (s, v) in outs:
        if not isinstance(v, Iface) or v.t is None:
            wrong.append(s.pcond())
            continue
        tn = p.tname(v.t).replace("*memory.", "")
        kinds[tn] = kinds.get(tn, 0) + 1
        wrong.append(z3.And(s.pcond(), z3.Not(z3.Or(*[ct == c for c in KIND.get(tn, [])]))))
        glob |= reachable(s, v, set()) & pre_objs
    lem.add("lemma:controller:kind-follows-the-header-type-byte", z3.Or(*wrong) if wrong else z3.BoolVal(True), info={"detail": "kinds %s" % kinds})
    lem.add("lemma:controller:all-five-kinds-constructible", z3.BoolVal(set(kinds) != set(KIND)), info={"detail": "kinds %s" % kinds})
    # the page builders are abstract here (C08/C09 verify them against their arguments): what they are GIVEN, and that
    # the controller keeps exactly what they returned, is this lemma's business
    from engine.core import SliceV
    hdr = lambda k: ce.ev.eval(vsl.parse("rom[%d]" % k), {"rom": vsl.TV(rom, ce.ev.ty_of(f.params[0]["t"]))}, st, st).v
    badargs, nprom, npram = [], 0, 0
    for (nm, tag, pc, args, r) in builder_calls:
        if tag:
            continue
        if nm == "prepareRAM":
            npram += 1
            ok = z3.And(args[0] == hdr(0x147), args[1] == hdr(0x149)) if len(args) == 2 and all(z3.is_expr(a) for a in args) else z3.BoolVal(False)
        else:
            nprom += 1
            img = args[1] if len(args) == 2 else None
            same = isinstance(img, SliceV) and isinstance(rom, SliceV) and img.obj == rom.obj and img.path == rom.path
            ok = z3.And(args[0] == hdr(0x148), img.off == rom.off, img.len == rom.len) if same and z3.is_expr(args[0]) else z3.BoolVal(False)
        badargs.append(z3.And(pc, z3.Not(ok)))
    lem.add("lemma:controller:page-builders-get-the-header-size-bytes-and-the-image", z3.Or(*badargs) if badargs else z3.BoolVal(True),
            info={"detail": "prepareROM calls %d (romSize = image[0x148], the whole image), prepareRAM calls %d (cartType = image[0x147], ramSize = image[0x149])" % (nprom, npram)})
    HAS = {"none": (False, False), "mbc1": (True, True), "mbc2": (True, False), "mbc3": (True, True), "mbc5": (True, True)}
    notkept = []
    for (s, v) in outs:
        if not isinstance(v, Iface) or v.t is None:
            continue
        tn = p.tname(v.t).replace("*memory.", "")
        rs = reachable(s, v, set())
        for fld, bname in (("rom", "prepareROM"), ("ram", "prepareRAM")):
            if not HAS.get(tn, (False, False))[0 if fld == "rom" else 1]:
                continue
            try:
                fv = ce.ev.eval(vsl.parse("m." + fld), {"m": vsl.TV(v.v, ce.ev.ty_of(v.t))}, s, s).v
            except Exception as ex:
                notkept.append("%s.%s unreadable: %s" % (tn, fld, ex))
                continue
            rr = [r for (nm, tag, pc, args, r) in builder_calls if nm == bname and not tag]
            # each abstract builder call returns a fresh object, so holding it means being on the path that made the call
            if not (isinstance(fv, SliceV) and any(isinstance(r, SliceV) and fv.obj == r.obj and fv.path == r.path
                                                   and z3.is_true(z3.simplify(z3.And(fv.off == r.off, fv.len == r.len))) for r in rr)):
                notkept.append("%s.%s is not the slice %s returned" % (tn, fld, bname))
    lem.add("lemma:controller:controller-keeps-exactly-the-built-pages-and-banks", z3.BoolVal(bool(notkept)), info={"detail": "; ".join(sorted(set(notkept))) or "rom/ram fields of mbc1, mbc3, mbc5 and rom of mbc2 are the builders' results"})
    lem.add("lemma:controller:references-no-package-level-object", z3.BoolVal(bool(glob)), info={"detail": "package-level objects reachable from a new controller: %s" % sorted(glob)})
    if two:
        shared = set()
        n2 = 0
        seen_kinds = set()
        for (s, v) in outs:
            if not isinstance(v, Iface) or v.t is None or v.t in seen_kinds:
                continue
            seen_kinds.add(v.t)
            first = reachable(s, v, set()) - pre_objs
            rom2, rtc2, outs2 = mk("second.", s)
            for (s2, v2) in outs2:
                n2 += 1
                shared |= (first & (reachable(s2, v2, set()) - pre_objs))
        lem.add("lemma:controller:two-controllers-share-no-object", z3.BoolVal(bool(shared) or n2 == 0), info={"detail": "shared: %s" % sorted(shared)})
        lem.notes.append("second construction: %d outcomes" % n2)
    lem.stats = dict(eng.stats)
    return lem
