"""C26 - frame loop steps every component once per machine cycle and stops on request."""
import z3
from engine.driver import run_property, Task, LemmaTask, Lem
from engine.core import Iface, Opaque, ChanV, TupleV, Ptr, concrete_bool
from props.common import filter_tasks, TRUSTED, BASE_ASSUME, scan_lemma, ext_iface, nil_value
from props.mem_common import keep_labels
import props.mapper_common as mc
import props.ppu_common as pc
import props.audio_common as ac
import props.wiring as wr

MANIFEST = {
    "level": "proof",
    "text": "runFrame: with the five per-cycle entry points abstracted to ghost tick counters, the loop invariant 'after mtick iterations every counter advanced by exactly mtick, and the timer interrupt request equals its old value or any overflow reported so far' is proved on entry and preserved (with a decreasing measure, so the loop ends), giving exactly 17,556 calls of each of cpu.ExecuteMachineCycle, ppu/memory/audio/timer.EndMachineCycle per frame; obligations attached to the abstracted calls prove the order inside every iteration: the CPU call happens when all five counters are equal (CPU first) and each of the other four happens exactly once after it; the frame is handed to the display exactly once when a display exists and the result is false otherwise. Run: with ctx.Done() modelled by a ghost 'cancelled' flag that may become true at any time, a frame is proved to start only directly after the non-blocking select saw the context not cancelled (so at most the frame in progress completes after cancellation), a true result of runFrame (display asks to close) ends the loop at once, and every return path runs the deferred Cleanup exactly once, which calls speakers.Cleanup / display.Cleanup iff the respective object exists. Progress per call: Mapper.EndMachineCycle (for each controller) performs exactly one DMA step and one RTC tick, rtc.tick advances the sub-second count by one unless halted, timer.EndMachineCycle advances the 16-bit counter by 4 and reports the overflow, ppu.EndMachineCycle advances the frame position by one, audio.EndMachineCycle advances the APU clock by 4 and emits one stereo sample per multiple of 95 among them. Wiring: the real gameboy.New is executed symbolically: the components runFrame steps are the very objects the CPU, PPU and bus refer to (one object per component), serial output goes to Config.SerialWriter, audio gets the speakers' channels iff there are speakers, the display gets this machine's controller and CPU.OnInput. An SSA scan shows each progress counter (APU clock and frame sequencer, timer counter, PPU frame position, RTC sub-second count, DMA cycle) is written only by its component's step function and the documented resets. tickClock itself (one clock, the frame sequencer every 8192 clocks, one stereo sample per multiple of 95) is discharged here, as is every other callee contract the run used (closure).",
    "note": "Assumed contracts: the five component entry points are abstract here (their own behaviour is C01-C21); context.Context.Done() returns a channel that is ready iff the context is cancelled, cancellation is monotone; display.RenderFrame / display.Cleanup / speakers.Cleanup are the (cgo, stubbed) environment. Liveness ('stops') is phrased as safety: no new frame starts once cancellation has been observed. That every component call corresponds to one machine cycle of that component is the subject of C10/C12/C13/C16/C20.",
    "technique": "loop invariants with ghost counters over the real go/ssa of runFrame and Run (defer, non-blocking select); z3",
    "design_ref": "DESIGN.md section 4 C26",
}
G = "(*gameboy.Gameboy)."
TICKS = {"(*cpu.CPU).ExecuteMachineCycle": "nCPU", "(*ppu.PPU).EndMachineCycle": "nPPU", "(*memory.Mapper).EndMachineCycle": "nMEM",
         "(*audio.Audio).EndMachineCycle": "nAPU", "(*timer.Timer).EndMachineCycle": "nTIM"}


def mk_tick(fn, gname):
    def h(eng, st, args, site):
        g = st.ghost
        if gname == "nCPU":
            # CPU acts first: no other component has been stepped in this machine cycle yet
            eng.oblige(st, "order", "cpu-acts-first", z3.Not(z3.And(*[g[k] == g["nCPU"] for k in ("nPPU", "nMEM", "nAPU", "nTIM")])))
        else:
            # exactly once per machine cycle, after the CPU
            eng.oblige(st, "order", "%s-once-after-cpu" % gname, g[gname] != g["nCPU"] - 1)
        g[gname] = g[gname] + 1
        if gname == "nTIM":
            irq = z3.Bool(eng.fresh_name("timer.irq"))
            g["irqAny"] = z3.Or(g["irqAny"], irq)
            return [(st, irq)]
        return [(st, None)]
    return h


def h_render(eng, st, args, site):
    st.trace = st.trace + (("render", args[1] if len(args) > 1 else None),)
    return [(st, z3.Bool(eng.fresh_name("display.close")))]


def h_cleanup_speakers(eng, st, args, site):
    st.trace = st.trace + (("cleanupSpeakers",),)
    return [(st, None)]


def h_cleanup_display(eng, st, args, site):
    st.trace = st.trace + (("cleanupDisplay",),)
    return [(st, None)]


def h_done(eng, st, args, site):
    return [(st, ChanV("ctx.done"))]


def h_runframe(eng, st, args, site):
    # a frame may only start when the select just saw the context not cancelled
    eng.oblige(st, "run", "frame-starts-only-when-not-cancelled", st.ghost["cancelled"])
    # ... and never after the display asked to close
    eng.oblige(st, "run", "no-frame-after-close-request", st.ghost["closeSeen"])
    st.ghost["nFrames"] = st.ghost["nFrames"] + 1
    # cancellation may arrive while the frame runs
    st.ghost["cancelled"] = z3.Or(st.ghost["cancelled"], z3.Bool(eng.fresh_name("cancel.during.frame")))
    close = z3.Bool(eng.fresh_name("runFrame.close"))
    st.ghost["closeSeen"] = z3.Or(st.ghost["closeSeen"], close)
    return [(st, close)]


def h_cleanup(eng, st, args, site):
    st.ghost["nCleanup"] = st.ghost["nCleanup"] + 1
    return [(st, None)]


def setup_ghost(w, st, args):
    e = w.e
    for k in ("nCPU", "nPPU", "nMEM", "nAPU", "nTIM", "nFrames", "nCleanup"):
        st.ghost[k] = z3.BitVec(e.fresh_name("ghost0." + k), 64)
    eq = st.ghost["nCPU"]
    for k in ("nPPU", "nMEM", "nAPU", "nTIM"):
        st.pc.append(st.ghost[k] == eq)      # frame boundary: every component has been stepped equally often
    st.pc.append(z3.And(eq >= 0, eq < (1 << 60)))
    st.ghost["irqAny"] = z3.BoolVal(False)
    st.ghost["closeSeen"] = z3.BoolVal(False)
    st.ghost["cancelled"] = z3.Bool(e.fresh_name("ghost0.cancelled"))
    e.abstract = dict(e.abstract)
    for fn, g in TICKS.items():
        e.abstract[fn] = mk_tick(fn, g)
    e.abstract["(*display.Display).RenderFrame"] = h_render
    e.abstract["(*display.Display).Cleanup"] = h_cleanup_display
    e.abstract["(*speakers.Speakers).Cleanup"] = h_cleanup_speakers
    e.abstract["invoke:Done:context.Context"] = h_done


def setup_run(w, st, args):
    setup_ghost(w, st, args)
    w.e.abstract[G + "runFrame"] = h_runframe
    w.e.abstract[G + "Cleanup"] = h_cleanup


def ctx_args(w, st):
    f = w.p.func(G + "runFrame")
    gb = w.sym(f.params[0]["t"], "gb", "arg:gb", ())
    return [gb, Iface("ext:ctx", Opaque("ctx"))]


OV = {"Audio.ch2.sweep": nil_value, "gb.config.SerialWriter": nil_value}


def loop_body_scan(ctx):
    """structural: the loop body of runFrame calls the five entry points once each, in the documented order"""
    f = ctx.prog.func(G + "runFrame")
    rpo, back, headers = f.order()
    body = f.loop_body(headers[0]) if headers else set()
    calls = []
    from engine.prog import short
    for b in f.blocks:
        if b["idx"] in body:
            for ins in b["instrs"]:
                if ins["op"] == "Call" and ins["call"].get("static"):
                    calls.append(short(ins["call"]["static"]))
    want = list(TICKS.keys()) + ["(*interrupts.Interrupts).RequestTimer"]
    return calls == want, "calls in the loop body of runFrame: %s" % calls


def wiring_scan(ctx):
    """gameboy.New: serial.New gets Config.SerialWriter; audio.New gets (nil, nil) exactly when DisableAudioOutput"""
    f = ctx.prog.func("gameboy.New")
    from engine.prog import short
    found = {"serial": False, "audio_nil": False, "audio_speakers": False, "initialize": False}
    for b in f.blocks:
        for ins in b["instrs"]:
            if ins["op"] == "Call" and ins["call"].get("static"):
                s = short(ins["call"]["static"])
                a = ins["call"]["args"]
                if s == "serial.New":
                    found["serial"] = True
                if s == "audio.New":
                    if all(x.get("k") == "const" and x.get("ck") == "nil" for x in a):
                        found["audio_nil"] = True
                    else:
                        found["audio_speakers"] = True
                if s == "(*cpu.CPU).Initialize":
                    found["initialize"] = True
    return all(found.values()), "gameboy.New wiring: %s" % found


PROGRESS_WRITERS = {
    # progress counter -> the step function(s) that advance it and the documented resets (each under its own contract)
    ("audio.Audio", "ticks"): {"(*audio.Audio).tickClock", "audio.New"},
    ("audio.Audio", "frameSeqTicks"): {"(*audio.Audio).tickClock", "(*audio.Audio).tickFrameSequencer", "(*audio.Audio).WriteNR52"},
    ("timer.Timer", "counter"): {"(*timer.Timer).EndMachineCycle", "(*timer.Timer).Reset", "timer.New"},
    ("ppu.PPU", "ticks"): {"(*ppu.PPU).EndMachineCycle", "(*ppu.PPU).disable", "ppu.New"},
    ("memory.rtc", "ticks"): {"(*memory.rtc).tick", "(*memory.rtc).write", "memory.newRTC"},
    ("oam.OAM", "dmaCycle"): {"(*oam.OAM).TickDMA", "(*oam.OAM).startDMA", "oam.New"},
}


def progress_writers(ctx):
    """per-component progress is measured by these counters: nothing but the component's own step function (and the documented
    reset: DIV write, LCD off, RTC seconds write, DMA start, APU power-on for the frame sequencer) ever writes one"""
    from props.common import field_writers, not_confined
    bad = {}
    for (stn, fl), ok in PROGRESS_WRITERS.items():
        ws = field_writers(ctx.prog, stn, fl)
        nc = not_confined(ctx.prog, ws, ok)
        if nc:
            bad["%s.%s" % (stn, fl)] = nc
    return not bad, "writers of a progress counter outside its step function / documented reset: %s" % bad


STEP_OWNERS = {
    "(*ppu.PPU).EndMachineCycle": ["PPU", "OAM", "Interrupts"],         # pixels, mode-2 window / last OAM row, VBlank+STAT requests
    "(*memory.Mapper).EndMachineCycle": ["OAM", "rtc"],                   # one DMA step, one RTC tick
    "(*audio.Audio).EndMachineCycle": ["Audio"],
    "(*timer.Timer).EndMachineCycle": ["Timer"],
}


def step_ownership(fn, kind="mbc3"):
    """one step of a component changes that component (and its documented outputs) only: every other object of the machine -
    the other components, work RAM, the cartridge - is left exactly as it was (heap comparison over the whole machine)"""
    def run(ctx, eng, ce):
        lem = Lem()
        st0, w, m, env = mc.mapper_world(ctx, eng, ce, kind)
        # callees that have a frame clause of their own (discharged against their bodies in C10/C12/C13/C16/C18-C21) are used
        # through it; everything else is inlined
        f = ctx.prog.func(fn)
        eng.modular = {k for k, cc in ce.contracts.items() if cc.assigns is not None and not cc.inline} - {f.name}
        recv = {"(*ppu.PPU)": "ppu.PPU", "(*memory.Mapper)": None, "(*audio.Audio)": "audio.Audio", "(*timer.Timer)": "timer.Timer"}[fn.rsplit(".", 1)[0]]
        a0 = m if recv is None else w.component(recv)
        extra = "m.audio.ticks >= 1 && m.audio.ticks < 0x3fffffffffffff00 && m.audio.frameSeqTicks < 512"
        from engine import vsl
        st0.pc.append(ce.ev.as_bool(ce.ev.eval(vsl.parse(extra), env, st0, st0)))
        pre = st0.fork()
        owners = STEP_OWNERS[fn]
        allowed = {oid for oid, nm in w.objname.items() if any(nm == o or nm.startswith(o + ".") for o in owners)}
        outs = eng.call_function(st0.fork(), f.name, [a0])
        viol = [z3.And(s.pcond(), mc.heaps_differ(eng, pre, s, skip=allowed)) for (s, _) in outs]
        lem.add("lemma:step-ownership:%s-changes-only-%s" % (fn, "+".join(owners)), z3.Or(*viol) if viol else z3.BoolVal(True),
                info={"detail": "objects that may change: %s" % sorted(allowed)})
        lem.covers.append(("lemma:step-ownership:%s#cover" % fn, z3.Or(*[s.pcond() for s, _ in outs]) if outs else z3.BoolVal(False)))
        lem.stats = dict(eng.stats)
        return lem
    return LemmaTask("step-ownership:" + fn, run, [fn])


def tasks(ctx):
    ts = []
    for variant, ov in (("display", dict(OV)), ("no-display", dict(OV, **{"gb.display": nil_value}))):
        ts.append(Task(G + "runFrame[%s]" % variant, G + "runFrame", variant=variant, overrides=ov, args=ctx_args, setup=setup_ghost))
    ts.append(Task(G + "Run", G + "Run", overrides=OV, args=ctx_args, setup=setup_run))
    for variant, ov in (("all-outputs", dict(OV)), ("no-outputs", dict(OV, **{"gb.display": nil_value, "gb.speakers": nil_value})),
                        ("speakers-only", dict(OV, **{"gb.display": nil_value})), ("display-only", dict(OV, **{"gb.speakers": nil_value}))):
        ts.append(Task(G + "Cleanup[%s]" % variant, G + "Cleanup", variant=variant, overrides=ov, setup=setup_ghost))
    # one call = one machine cycle of progress of that component (DIV +4, frame position +1, DMA step, RTC sub-second count,
    # four APU clocks with their samples): the clauses of the per-cycle entry points that say so
    from engine import vsl

    def mbc_valid(kind):
        def f(w, st, args):
            ce = w.e.ev
            env = {"m": vsl.TV(args[0], ce.ev.ty_of(mc.ptr_tid(w.p, "memory.Mapper")))}
            return ce.ev.as_bool(ce.ev.eval(vsl.parse("%s(m.mbc)" % mc.MBC_VALID[kind]), env, st, st))
        return f
    for kind in ("none", "mbc1", "mbc2", "mbc3", "mbc5"):
        ov = {"Audio.ch2.sweep": nil_value, "Mapper.mbc": mc.mbc_override(kind)}
        ts.append(Task(mc.M + "EndMachineCycle[%s]" % kind, mc.M + "EndMachineCycle", variant=kind, overrides=ov, extra_requires=[mbc_valid(kind)],
                       keep=keep_labels({"rtc", "dma", "ok"})))
    ts.append(Task("(*memory.rtc).tick", "(*memory.rtc).tick", keep=keep_labels({"halted", "count", "ok"})))
    ts.append(Task("(*timer.Timer).EndMachineCycle", "(*timer.Timer).EndMachineCycle", keep=keep_labels({"counter", "irq"})))
    ts.append(pc.ppu_task("EndMachineCycle", ["off", "ticks", "inv"]))
    # the frame position's documented restarts: switching the LCD on arms the short first line, switching it off rewinds to 0
    ts.append(pc.ppu_task("enable", ["0", "inv"]))
    ts.append(pc.ppu_task("disable", ["0", "inv"]))
    both = dict(ac.OV, **{"Audio.l": ac.chan_ov("left"), "Audio.r": ac.chan_ov("right")})
    ts.append(Task(ac.A + "EndMachineCycle[outputs]", ac.A + "EndMachineCycle", variant="outputs", overrides=both, keep=keep_labels({"clock", "samples", "untriggered", "ok"})))
    ts.append(Task(ac.A + "EndMachineCycle[no-outputs]", ac.A + "EndMachineCycle", variant="no-outputs", overrides=ac.OV, keep=keep_labels({"clock", "samples", "untriggered", "ok"})))
    ts.append(Task(ac.A + "WriteNR52", ac.A + "WriteNR52", overrides=ac.OV, keep=keep_labels({"clock"}, kinds=("requires",))))
    # audio.EndMachineCycle above uses tickClock through its contract: one clock, one sample per multiple of 95 - discharged here
    ts.append(Task(ac.A + "tickClock[outputs]", ac.A + "tickClock", variant="outputs", overrides=both, keep=keep_labels({"ticks", "sample", "sequencer"}, kinds=("requires",))))
    # the cartridge clock's sub-second count is advanced by rtc.tick and restarted by a seconds-register write only - and such
    # a write reaches the clock only through an enabled MBC3 window (the clock contracts of C10)
    import props.C10 as c10
    import props.mem_common as memc
    ts += [Task(f, f) for f in c10.FUNCS if f != "(*memory.rtc).tick"]
    ts.extend(memc.c10_tasks(ctx))
    # DMA progress restarts from the set-up cycle on every FF46 write
    ts.append(Task("(*oam.OAM).startDMA", "(*oam.OAM).startDMA"))
    ts.append(Task("(*oam.OAM).WriteDMA", "(*oam.OAM).WriteDMA"))
    ts.append(Task("(*oam.OAM).TickDMA", "(*oam.OAM).TickDMA", args=pc.tickdma_args, keep=keep_labels({"idle", "setup", "first", "copy", "last", "ok"})))
    # the machine that runs is the one gameboy.New builds: one object per component, all references consistent
    ts.append(LemmaTask("lemma:power-on", lambda c, e, ce: wr.power_on(c, e, ce, invariants=False), ["gameboy.New", "memory.New", "cpu.New", "ppu.New", "audio.New"]))
    ts.extend(step_ownership(fn) for fn in STEP_OWNERS)
    ts.append(scan_lemma("scan:progress-counters-written-only-by-their-step-functions", progress_writers, ["all component packages (SSA scan)"]))
    ts.append(scan_lemma("scan:runFrame-loop-body-order", loop_body_scan, ["(*gameboy.Gameboy).runFrame (SSA scan)"]))
    ts.append(scan_lemma("scan:gameboy.New-wiring", wiring_scan, ["gameboy.New (SSA scan)"]))
    return filter_tasks(ts)


def run(tier, seed):
    return run_property("C26", tasks, "proof", tier, seed, BASE_ASSUME + [
        "the five per-cycle entry points are abstracted to ghost tick counters (their behaviour is C01-C21)",
        "context.Context.Done() is ready iff the context is cancelled; cancellation is monotone",
        "display and speakers (cgo) are stubbed: RenderFrame / Cleanup are environment calls recorded as ghost events"], TRUSTED)
