"""C18 - sound registers read back through their masks and obey APU power."""
from engine.driver import run_property, Task, LemmaTask
from props.common import filter_tasks, TRUSTED, BASE_ASSUME
import props.audio_common as ac

MANIFEST = {
    "level": "proof",
    "text": "Sequence lemmas over the real register handlers with every APU field and the written value symbolic: for each of NR10-NR51, with sound powered on, ReadNRxx after WriteNRxx(v) equals v OR the DMG mask of the statement, from every pre-state; ReadNR52 equals 0x70 plus the power bit plus the four channel status bits; after WriteNR52 with bit 7 clear every register reads exactly its mask and NR52 reads 0x70, and the 16 bytes of wave RAM are unchanged (also after powering on again); while powered off, a write to any register other than NR52 and the length registers NR11/NR21/NR31/NR41 is proved to change no heap location at all (frame obligation over every APU object), and those four change only the channel's length counter; wave RAM written while channel 3 is off reads back the written byte at every address FF30-FF3F. Stability: the value read from every register NR10-NR51 and the non-status bits of NR52 is proved unchanged by a machine cycle of the APU - EndMachineCycle is executed with tickClock taken by contract, whose frame (assigns) clause, discharged against the real tickClock and tickFrameSequencer bodies, contains no field that backs a readable register bit. wave.trigger is proved to leave wave RAM unchanged unless channel 3 is retriggered while playing with its timer at 0 (the documented corruption). The four length registers are proved to load the length counter whether sound is on or off.",
    "note": "Trusted: go/ssa, engine semantics, z3. Routing of FF10-FF3F to these handlers is C06's decoder obligation. One built-in canary obligation must fail on every run.",
    "technique": "read-after-write and frame lemmas over the real go/ssa of the register handlers; z3 + frame (assigns) obligations of the clock functions",
    "design_ref": "DESIGN.md section 4 C18",
}


def DAC(name):
    return any(name.endswith("#ensures:" + l) for l in ("dac", "status", "off", "on")) or "#requires:" in name


def LEN(name):
    return name.endswith("#ensures:length") or "#requires:" in name


def FRAME(name):
    """only the frame (assigns) obligations of the clock functions belong to this property; their functional clauses are C19-C21"""
    return "#assigns:" in name or "#requires:" in name


def dedupe(extra, own):
    names = {t.name for t in own}
    return own + [t for t in extra if t.name not in names]


def tasks(ctx):
    return filter_tasks(dedupe(ac.register_semantics_tasks(ctx), [LemmaTask("lemma:readback", ac.readback_lemmas, [ac.A + "Write" + r for r in ac.MASKS] + [ac.A + "Read" + r for r in ac.MASKS] +
                                   [ac.A + "WriteNR52", ac.A + "ReadNR52", ac.A + "WriteWaveRAM", ac.A + "ReadWaveRAM"]),
                         LemmaTask("lemma:stable", ac.stability_lemmas, [ac.A + "EndMachineCycle"]),
                         # wave RAM keeps its contents except through FF30-FF3F writes and the documented retrigger corruption
                         Task("(*audio.wave).trigger", "(*audio.wave).trigger", keep=lambda n: n.endswith("#ensures:keep") or "#assigns:" in n),
                         Task(ac.A + "tickClock", ac.A + "tickClock", overrides=ac.OV, keep=FRAME),
                         # "while off, writes other than to NR52 and the length registers are ignored": the length registers are not -
                         # they load the counter whether sound is on or off
                         # NR52's status bits: a channel whose DAC bits (NRx2 bits 7-3, NR30 bit 7) are written as zero reads as off
                         *[Task(ac.A + r, ac.A + r, overrides=ac.OV, keep=DAC) for r in ("WriteNR12", "WriteNR22", "WriteNR30", "WriteNR42")],
                         Task(ac.A + "WriteNR11", ac.A + "WriteNR11", overrides=ac.OV, keep=LEN), Task(ac.A + "WriteNR21", ac.A + "WriteNR21", overrides=ac.OV, keep=LEN),
                         Task(ac.A + "WriteNR31", ac.A + "WriteNR31", overrides=ac.OV, keep=LEN), Task(ac.A + "WriteNR41", ac.A + "WriteNR41", overrides=ac.OV, keep=LEN),
                         Task(ac.A + "tickFrameSequencer", ac.A + "tickFrameSequencer", overrides=ac.OV, keep=FRAME)]))


# components whose representation invariants the lemmas above assume in every reachable state (engine/closure.py adds
# the preservation obligations of all their functions)
tasks.invariant_packages = ('audio',)


def run(tier, seed):
    return run_property("C18", tasks, "proof", tier, seed, BASE_ASSUME, TRUSTED)
