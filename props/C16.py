"""C16 - an OAM DMA transfer copies 160 bytes and blocks OAM meanwhile."""
from engine.driver import run_property, Task, LemmaTask
from props.common import filter_tasks, TRUSTED, BASE_ASSUME
import props.ppu_common as pc

MANIFEST = {
    "level": "proof",
    "text": "TickDMA is verified against a contract that fixes, per value of the transfer cycle counter, the bus address read (base+k-1), the OAM byte stored (k-2) and the termination at the 162nd call; WriteDMA/startDMA are proved to (re)start the transfer with base XX00 (XX00-0x2000 for XX >= 0xE0, i.e. through the work RAM mirror); on top of the real TickDMA an inductive invariant (quantified prefix: bytes 0..k-3 of OAM equal the source bytes as returned by the bus when they were read, the latch holds byte k-2) is proved preserved by every call and to give, at the 162nd call, dmaRunning == false and all 160 OAM bytes equal to the source bytes - for every source page, every source content, every restart; oam.Read is proved to return 0xFF for the whole of FE00-FEFF whenever a transfer runs. The bus is abstract (any function of the address), so the result holds for every source region.",
    "note": "Trusted: go/ssa, engine semantics, z3 (quantified array obligations also decided by cvc5 in the thorough tier). CPU writes to OAM during a transfer are outside the statement. Mapper.EndMachineCycle's single TickDMA call per cycle is C26/C11's wiring obligation.",
    "technique": "function contracts + inductive (quantified) invariant over the real go/ssa with an abstract bus; z3",
    "design_ref": "DESIGN.md section 4 C16",
}


def tasks(ctx):
    O = pc.O
    ts = [Task(O + "TickDMA", O + "TickDMA", args=pc.tickdma_args), Task(O + "startDMA", O + "startDMA"), Task(O + "WriteDMA", O + "WriteDMA"),
          Task(O + "ReadDMA", O + "ReadDMA"), Task(O + "Read", O + "Read"), Task(O + "PPURead", O + "PPURead"),
          LemmaTask("lemma:dma", pc.dma_induction, ["(*oam.OAM).TickDMA (inductive invariant)", "(*oam.OAM).WriteDMA"])]
    return filter_tasks(ts)


# components whose representation invariants the lemmas above assume in every reachable state (engine/closure.py adds
# the preservation obligations of all their functions)
tasks.invariant_packages = ('oam',)


def run(tier, seed):
    return run_property("C16", tasks, "proof", tier, seed, BASE_ASSUME + ["the DMA source is read through an abstract bus function of the address (any memory map)"], TRUSTED)
