"""C16 - an OAM DMA transfer copies 160 bytes and blocks OAM meanwhile."""
from engine.driver import run_property, Task, LemmaTask
from props.common import filter_tasks, TRUSTED, BASE_ASSUME
import props.ppu_common as pc

MANIFEST = {
    "level": "proof",
    "text": "TickDMA is verified against a contract that fixes, per value of the transfer cycle counter, the bus address read (base+k-1), the OAM byte stored (k-2) and the termination at the 162nd call; WriteDMA/startDMA are proved to (re)start the transfer with base XX00 (XX00-0x2000 for XX >= 0xE0, i.e. through the work RAM mirror); on top of the real TickDMA an inductive invariant (quantified prefix: bytes 0..k-3 of OAM equal the source bytes as returned by the bus when they were read, the latch holds byte k-2) is proved preserved by every call and to give, at the 162nd call, dmaRunning == false and all 160 OAM bytes equal to the source bytes - for every source page, every source content, every restart; oam.Read is proved to return 0xFF for the whole of FE00-FEFF whenever a transfer runs. The bus is abstract (any function of the address), so the result holds for every source region.",
    "note": "Trusted: go/ssa, engine semantics, z3 (quantified array obligations also decided by cvc5 in the thorough tier). CPU writes to OAM during a transfer are outside the statement. Mapper.EndMachineCycle's single TickDMA call per cycle is C26/C11's wiring obligation.",
    "technique": "function contracts + inductive (quantified) invariant over the real go/ssa with an abstract bus; z3",
    "design_ref": "DESIGN.md section 4 C16",
}


def tasks(ctx):
    O = pc.O
    ts = [Task(O + "TickDMA", O + "TickDMA", args=pc.tickdma_args), Task(O + "startDMA", O + "startDMA"), Task(O + "WriteDMA", O + "WriteDMA"),
          Task(O + "ReadDMA", O + "ReadDMA"), Task(O + "Read", O + "Read"), Task(O + "PPURead", O + "PPURead"),
          LemmaTask("lemma:dma", pc.dma_induction, ["(*oam.OAM).TickDMA (inductive invariant)", "(*oam.OAM).WriteDMA"])]
    # the bus's per-cycle step performs exactly one DMA step and one clock tick, whatever the other is doing
    import props.mapper_common as mcx
    from engine import vsl as _vsl
    from props.mem_common import keep_labels as _kl

    def _valid3(w, st, args):
        ce = w.e.ev
        env = {"m": _vsl.TV(args[0], ce.ev.ty_of(mcx.ptr_tid(w.p, "memory.Mapper")))}
        return ce.ev.as_bool(ce.ev.eval(_vsl.parse("valid3(m.mbc)"), env, st, st))
    ts.append(Task(mcx.M + "EndMachineCycle[mbc3]", mcx.M + "EndMachineCycle", variant="mbc3",
                   overrides={"Audio.ch2.sweep": mcx.nil_value, "Mapper.mbc": mcx.mbc_override("mbc3")}, extra_requires=[_valid3],
                   keep=_kl({"rtc", "dma", "ok"})))
    def dma_source(ctx, eng, ce):
        """the source function Mapper.EndMachineCycle hands to TickDMA is the mapper's own bus read (bound to the same
        mapper), so 'byte k is what the bus returns for source+k in the cycle it is copied' (TickDMA's contract, over an
        abstract read function) is a statement about the machine's real bus"""
        from engine.driver import Lem
        from engine.verify import verify_function
        from engine.core import Closure, Ptr
        import z3
        calls = []

        fread = ctx.prog.func(mcx.M + "Read")

        def wraps_bus_read(e, s, fnv, me):
            """a closure other than the bound method is accepted iff, with the bus read abstract, it performs exactly one
            read of the receiver's bus, at the address it was given, and returns that byte"""
            reads = []

            def h_read(e2, s2, a2, site2):
                r_ = e2.fresh(fread.results[0], "busread")
                reads.append((list(a2), r_))
                return [(s2, r_)]
            saved = e.abstract
            e.abstract = dict(saved)
            e.abstract["(*memory.Mapper).Read"] = h_read
            try:
                addr = e.fresh(fread.params[1]["t"], "dmaaddr")
                outs = e.call_value(s.fork(), fnv, [addr])
            except Exception:
                return False
            finally:
                e.abstract = saved
            if len(outs) != 1 or len(reads) != 1:
                return False
            (a2, r_), v = reads[0], outs[0][1]
            return (isinstance(a2[0], Ptr) and isinstance(me, Ptr) and a2[0].obj == me.obj and tuple(a2[0].path) == tuple(me.path)
                    and z3.is_expr(a2[1]) and a2[1].eq(addr) and z3.is_expr(v) and v.eq(r_))

        def h_tick(e, s, args, site):
            calls.append((s.pcond(), list(args), s))
            return [(s, None)]
        eng.abstract = dict(eng.abstract)
        eng.abstract["(*oam.OAM).TickDMA"] = h_tick

        def setup(w, st, args):
            ctx.seed_globals(st)
        r = verify_function(eng, ce, mcx.M + "EndMachineCycle", variant="mbc3", setup=setup,
                            overrides={"Audio.ch2.sweep": mcx.nil_value, "Mapper.mbc": mcx.mbc_override("mbc3")}, extra_requires=[_valid3])
        lem = Lem()
        me = r.args[0]
        bad = []
        for (pc_, a, s_) in calls:
            fnv = a[1] if len(a) == 2 else None
            ok = (isinstance(fnv, Closure) and fnv.fn is not None and fnv.fn.replace("$bound", "").endswith("memory.Mapper).Read")
                  and len(fnv.bind or ()) == 1 and isinstance(fnv.bind[0], Ptr) and isinstance(me, Ptr)
                  and fnv.bind[0].obj == me.obj and tuple(fnv.bind[0].path) == tuple(me.path))
            if not ok and isinstance(fnv, Closure) and fnv.fn is not None:
                ok = wraps_bus_read(eng, s_, fnv, me)
            if not ok:
                bad.append("TickDMA called with %r" % (fnv,))
        lem.add("lemma:dma-source:TickDMA-is-given-the-mapper's-own-bus-read", z3.BoolVal(bool(bad) or not calls),
                info={"detail": "; ".join(bad) or "%d call site outcome(s), each with the bound method Read of the receiver" % len(calls)})
        lem.covers.append(("lemma:dma-source#cover", z3.Or(*[c[0] for c in calls]) if calls else z3.BoolVal(False)))
        lem.stats = dict(eng.stats)
        return lem
    ts.append(LemmaTask("lemma:dma-source", dma_source, ["(*memory.Mapper).EndMachineCycle"]))
    return filter_tasks(ts)


# components whose representation invariants the lemmas above assume in every reachable state (engine/closure.py adds
# the preservation obligations of all their functions)
tasks.invariant_packages = ('oam',)


def run(tier, seed):
    return run_property("C16", tasks, "proof", tier, seed, BASE_ASSUME + ["the DMA source is read through an abstract bus function of the address (any memory map)"], TRUSTED)
