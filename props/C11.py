"""C11 - no cartridge image or guest program can crash the emulator."""
import z3
from engine.driver import run_property, Task, LemmaTask, Lem
from engine.core import State, Ptr, Iface, SliceV, concrete_bool
from engine.verify import World
from engine import vsl
from props.common import filter_tasks, TRUSTED, BASE_ASSUME, nil_value
from props.mem_common import keep_labels
import props.mapper_common as mc
import props.cpu_common as cc
import props.ppu_common as pc
import props.audio_common as ac
import props.wiring as wr

MANIFEST = {
    "level": "proof",
    "text": "No-panic sweep under proved invariants. Construction: the real newMBC is executed on an arbitrary byte slice (symbolic length up to 16 MiB, symbolic header and contents; prepareROM/prepareRAM loops cut at invariants); every outcome is either a panic (allowed: loading fails) or returns a non-nil controller whose dynamic type satisfies its representation invariant (validNone/valid1/2/3/5: bank registers in range, bank counts a power of two between 2 and 512, RAM bank count 1/4/8/16). Guest programs: under those invariants and the components' invariants (worldOK) every index, slice, nil-dereference, division and explicit panic site reachable from Mapper.Read/Write (every address class x every controller), Mapper.EndMachineCycle (DMA through the real decoder, RTC), DumpRAM, oam.Corrupt and the four corruption patterns, ppu.EndMachineCycle, the PPU render helpers, audio.EndMachineCycle and all register handlers, timer.EndMachineCycle, controller.ButtonAction, and every defined opcode of the CPU (501 opcode lemmas, incl. the dispatch itself) is proved unreachable; the 11 undefined opcodes are proved to reach exactly the deliberate os.Exit and nothing else does. The invariants are the ones proved inductive in C08-C10, C12, C13, C16, C17, C19. Power-on: the first machine cycle of any program is proved to perform no OAM-bug trigger, which covers the window before the PPU's first OAM access establishes plaOK. The base case is discharged on the real gameboy.New (ROM loading and the cgo outputs abstracted): every invariant of worldOK except plaOK holds in the power-on state for every Config; apuOK and the APU clock invariant are proved preserved by every exported method of *Audio. The renderer itself (renderPixel with findBackgroundPixel / findWindowPixel / readTilePixel, used through a contract inside ppu.EndMachineCycle) is swept through the pixel lemma's no-panic obligation for every scroll, window, LCDC and object configuration.",
    "note": "Trusted: go/ssa, engine semantics, z3. fmt.Sprintf/Println and image.SetRGBA are assumed not to panic. A failing io.Writer makes serial.WriteSB panic by design (environment). display/speakers (cgo) are outside.",
    "technique": "panic-site obligations generated for every index/slice/deref/div/panic instruction of the real go/ssa, discharged under contracts' invariants; constructor-establishes-invariant lemma; z3",
    "design_ref": "DESIGN.md section 4 C11",
}
# no-panic sites plus the obligations that make the invariants they rely on inductive
NP = keep_labels({"valid", "ok", "inv", "xinv", "ramrange", "ram", "lo", "hi", "disarmed", "pla", "banks", "pages"},
                 kinds=("no-panic", "no-exit", "requires", "loop-entry", "loop-preserve"))


def construction(ctx, eng, ce):
    """newMBC(rom, rtc): panic (allowed) or a controller satisfying its invariant"""
    lem = Lem()
    st = State()
    ctx.seed_globals(st)
    w = World(eng, st)
    eng.ev = ce
    eng.contracts = ce.contracts
    eng.modular = set()
    f = ctx.prog.func("memory.newMBC")
    rom = w.sym(f.params[0]["t"], "rom", "arg:rom", ())
    rtc = w.component("memory.rtc")
    env0 = {"r": vsl.TV(rtc, ce.ev.ty_of(f.params[1]["t"]))}
    st.pc.append(ce.ev.as_bool(ce.ev.eval(vsl.parse("rtcOK(r)"), env0, st, st)))
    eng.terminals, eng.obligs = [], []
    outs = eng.call_function(st, f.name, [rom, rtc])
    lem.covers.append(("lemma:construction#cover:some-image-is-accepted", z3.Or(*[s.pcond() for s, _ in outs]) if outs else z3.BoolVal(False)))
    kinds = {}
    viol_nil, viol_valid = [], {}
    for (s, v) in outs:
        if not isinstance(v, Iface) or v.t is None:
            viol_nil.append(s.pcond())
            continue
        tn = ctx.prog.tname(v.t).replace("*memory.", "")
        kinds[tn] = kinds.get(tn, 0) + 1
        env = {"x": vsl.TV(v.v, ce.ev.ty_of(v.t))}
        ok = ce.ev.as_bool(ce.ev.eval(vsl.parse("%s(x)" % mc.MBC_VALID[tn]), env, s, s))
        viol_valid.setdefault(tn, []).append(z3.And(s.pcond(), z3.Not(ok)))
    ob = lem.add("lemma:construction:accepted-image-gives-a-controller", z3.Or(*viol_nil) if viol_nil else z3.BoolVal(False),
                 info={"replay": lambda c, pr, o, res: construction_replay(c, pr, o, res, rom)})
    for tn, vs in viol_valid.items():
        lem.add("lemma:construction:%s-satisfies-its-invariant" % tn, z3.Or(*vs))
    # the controller kind is the documented function of the header's cartridge type byte (0147)
    KIND = {"none": [0x00], "mbc1": [0x01, 0x02, 0x03], "mbc2": [0x05, 0x06], "mbc3": [0x0f, 0x10, 0x11, 0x12, 0x13],
            "mbc5": [0x19, 0x1a, 0x1b, 0x1c, 0x1d, 0x1e]}
    try:
        ct = ce.ev.eval(vsl.parse("rom[0x147]"), {"rom": vsl.TV(rom, ce.ev.ty_of(f.params[0]["t"]))}, st, st).v
        wrong = []
        for (s, v) in outs:
            if isinstance(v, Iface) and v.t is not None:
                tn = ctx.prog.tname(v.t).replace("*memory.", "")
                wrong.append(z3.And(s.pcond(), z3.Not(z3.Or(*[ct == c for c in KIND.get(tn, [])]))))
        lem.add("lemma:construction:controller-kind-follows-the-header-type-byte", z3.Or(*wrong) if wrong else z3.BoolVal(True))
    except Exception as ex:
        lem.add("lemma:construction:controller-kind-follows-the-header-type-byte", z3.BoolVal(True), info={"detail": "not evaluable: %s" % ex})
    missing = set(mc.MBC_VALID) - set(kinds)
    lem.add("lemma:construction:all-five-controllers-constructible", z3.BoolVal(bool(missing)), info={"detail": "kinds %s" % kinds})
    # loop obligations raised inside prepareROM / prepareRAM
    for ob in eng.obligs:
        if ob.kind.startswith("loop"):
            lem.add("lemma:construction:" + ob.kind + ":" + ob.site, ob.viol)
    lem.notes.append("construction outcomes: %s, %d panics (allowed)" % (kinds, len([t for t in eng.terminals if t.kind == 'panic'])))
    lem.stats = dict(eng.stats)
    return lem


CONS_GO = """package memory

import (
	"encoding/json"
	"fmt"
	"os"
	"testing"
)

func TestVerifReplay(t *testing.T) {
	out := map[string]interface{}{}
	func() {
		defer func() {
			if r := recover(); r != nil {
				out["panic"] = fmt.Sprint(r)
			}
		}()
		rom := make([]byte, %d)
		%s
		m := newMBC(rom, newRTC())
		out["nil"] = m == nil
		out["type"] = fmt.Sprintf("%%T", m)
		if m == nil {
			// what the first instruction fetch of any program does with it
			func() {
				defer func() { if r := recover(); r != nil { out["first-read"] = fmt.Sprint(r) } }()
				mp := &Mapper{mbc: m}
				mp.Read(0x0100)
			}()
		}
	}()
	b, _ := json.Marshal(out)
	os.WriteFile(os.Getenv("VERIF_REPLAY_OUT"), b, 0644)
}
"""


def construction_replay(ctx, prop, ob, res, rom):
    from engine.replay import run_go_test, mval, array_interp
    model = res.model
    ln = mval(model, rom.len)
    if ln > (1 << 24):
        return {"status": "unconfirmed", "reason": "image too large to replay (%d bytes)" % ln}
    sets = []
    try:
        back = ob_state_heap(rom, ctx)
    except Exception:
        back = None
    return_inputs = {"len(rom)": ln}
    src = CONS_GO % (ln, "\n\t\t".join(sets))
    rc, log, out = run_go_test(ctx, "github.com/scottyw/tetromino/gameboy/memory", src)
    rep = {"inputs": return_inputs, "go_rc": rc, "function": "memory.newMBC"}
    if out is None:
        rep.update(status="error", log=log)
        return rep
    rep["real"] = out
    if out.get("nil") and "panic" not in out:
        rep.update(status="confirmed", reason="newMBC returned a nil controller without failing; the first bus read then crashes: %s" % out.get("first-read"))
    else:
        rep.update(status="unconfirmed", reason="the real constructor did not return nil for this length")
    return rep


def ob_state_heap(rom, ctx):
    return None


def first_cycle(ctx, eng, ce):
    """the first machine cycle of every instruction performs no bus write and no OAM-bug trigger"""
    lem = Lem()
    b = cc.make_base(ctx, eng, ce)
    emc = ctx.prog.func(cc.CPU + "ExecuteMachineCycle").name
    bad = []
    for op in range(256):
        st = b.st.fork()
        pre = cc.pre_regs(eng, st, b)
        for h in [z3.Not(z3.And(pre["ime"], cc.pending_term(eng, st, b))), z3.Not(cc.fld(eng, st, b, "halted")), z3.Not(cc.fld(eng, st, b, "stopped"))]:
            st.pc.append(h)
        st.ghost["script"] = (op,) if op != 0xCB else (0xCB, 0x00)
        st.ghost["cycle"] = 1
        eng.terminals = []
        for (s, _) in eng.call_function(st, emc, [b.cpu]):
            if any(e[0] in ("W", "T") for e in s.trace):
                bad.append(op)
    lem.add("lemma:first-cycle-of-an-instruction-touches-no-oam", z3.BoolVal(bool(bad)), info={"detail": "opcodes with a write/trigger in cycle 1: %s" % bad})
    return lem


def mbc_valid(kind):
    def f(w, st, args):
        ce = w.e.ev
        env = {"m": vsl.TV(args[0], ce.ev.ty_of(mc.ptr_tid(w.p, "memory.Mapper")))}
        return ce.ev.as_bool(ce.ev.eval(vsl.parse("%s(m.mbc)" % mc.MBC_VALID[kind]), env, st, st))
    return f


def nopanic_opcode_task(chunk, idx):
    return cc.opcode_task("C11", chunk, idx)


def tasks(ctx):
    ts = [LemmaTask("lemma:construction", construction, ["memory.newMBC", "memory.prepareROM", "memory.prepareRAM", "memory.newMBC1", "memory.newMBC2",
                                                         "memory.newMBC3", "memory.newMBC5", "(*memory.mbc1).updateBanks"]),
          LemmaTask("lemma:first-cycle", first_cycle, ["(*cpu.CPU).ExecuteMachineCycle (first cycle of each opcode)"]),
          # base case of the invariants the sweep assumes: the machine gameboy.New builds satisfies every one of them
          LemmaTask("lemma:power-on", lambda c, e, ce: wr.power_on(c, e, ce, wiring=False), ["gameboy.New", "memory.New", "cpu.New", "ppu.New", "audio.New", "timer.New", "oam.New"])]
    ts.extend(ac.invariant_task(fn) for fn in ac.exported_audio_methods(ctx))
    # decoder: every class, every controller
    for cls in mc.memory_map():
        for kind in (("mbc1",) if cls[3] != "mbc" else ("none", "mbc1", "mbc2", "mbc3", "mbc5")):
            t = mc.routing_task(kind, cls, "C11")
            t.keep = lambda name: name.endswith("-no-panic")
            ts.append(t)
    for kind in ("none", "mbc1", "mbc2", "mbc3", "mbc5"):
        ov = {"Audio.ch2.sweep": nil_value, "Mapper.mbc": mc.mbc_override(kind)}
        ts.append(Task(mc.M + "EndMachineCycle[%s]" % kind, mc.M + "EndMachineCycle", variant=kind, overrides=ov, extra_requires=[mbc_valid(kind)], keep=NP))
        ts.append(Task(mc.M + "DumpRAM[%s]" % kind, mc.M + "DumpRAM", variant=kind, overrides=ov, extra_requires=[mbc_valid(kind)], keep=NP))
    for m in ("none", "mbc1", "mbc2", "mbc3", "mbc5"):
        for op in ("Read", "Write"):
            f = "(*memory.%s).%s" % (m, op)
            ts.append(Task(f, f, keep=NP))
    ts.append(Task("(*memory.mbc1).updateBanks", "(*memory.mbc1).updateBanks", keep=NP))
    ov1 = {"Audio.ch2.sweep": nil_value, "Mapper.mbc": mc.mbc_override("mbc1")}
    ts.append(Task(mc.M + "Write[invariants]", mc.M + "Write", overrides=ov1, extra_requires=[mbc_valid("mbc1")], keep=NP))
    for f in ["(*timer.Timer).WriteDIV", "(*timer.Timer).WriteTIMA", "(*timer.Timer).WriteTMA", "(*timer.Timer).WriteTAC", "(*memory.rtc).increment",
              "(*ppu.PPU).enable", "(*ppu.PPU).disable", "(*ppu.PPU).checkOverlappingSprite", "(*oam.OAM).startDMA"]:
        ts.append(Task(f, f, keep=NP))
    for f in ["(*memory.rtc).read", "(*memory.rtc).write", "(*memory.rtc).tick", "(*timer.Timer).EndMachineCycle", "(*controller.Controller).ButtonAction",
              "(*oam.OAM).Corrupt", "(*oam.OAM).Read", "(*oam.OAM).Write", "(*oam.OAM).PPURead", "(*oam.OAM).TriggerWriteCorruption",
              "(*ppu.PPU).EndMachineCycle", "(*ppu.PPU).WriteLCDC", "(*audio.Audio).tickClock", "(*audio.Audio).tickFrameSequencer",
              "(*audio.square).tickTimer", "(*audio.wave).tickTimer", "(*audio.noise).tickTimer"]:
        ts.append(Task(f, f, keep=NP, overrides=ac.OV))
    ts.append(Task("(*oam.OAM).TickDMA", "(*oam.OAM).TickDMA", args=pc.tickdma_args, keep=NP))
    ts += [nopanic_opcode_task(ch, i) for i, ch in enumerate(cc.opcode_chunks(16))]
    # the renderer is used through its contract inside ppu.EndMachineCycle: its own body (tile map / tile data / OAM indexing for
    # every scroll, window, LCDC and object configuration) is swept here
    import props.C15 as c15
    t = LemmaTask("lemma:pixel", c15.pixel_lemma, [c15.P + "renderPixel", c15.P + "findWindowPixel", c15.P + "findBackgroundPixel", c15.P + "readTilePixel"])
    t.keep = lambda name: "no-panic" in name
    ts.append(t)
    ts.append(Task(c15.P + "readTilePixel", c15.P + "readTilePixel", keep=NP))
    return filter_tasks(ts)


def run(tier, seed):
    return run_property("C11", tasks, "proof", tier, seed, BASE_ASSUME + ["fmt.*, image.SetRGBA do not panic; a failing serial writer is the environment"], TRUSTED)
