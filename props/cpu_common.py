"""Per-opcode lemmas over the real ExecuteMachineCycle and the dispatch tables computed by the real Initialize
(shared by C01, C02, C03; building blocks for C04, C05, C25)."""
import os, sys, time
import z3
from engine.core import (State, Ptr, NIL, SliceV, NILSLICE, Closure, NILFUNC, StructV, ArrV, TupleV, Unsupported,
                         concrete_bool, concrete_int, is_z3, Terminal)
from engine.verify import World
from engine.driver import Lem, LemmaTask
sys.path.insert(0, os.path.join(os.path.dirname(os.path.dirname(os.path.abspath(__file__))), "spec"))
import sm83

CPU = "(*cpu.CPU)."
REGS8 = ["a", "b", "c", "d", "e", "h", "l", "f"]


def nil_ov(world, tid, nm, oid, path):
    return world.e.zero(tid)


class Base:
    """CPU world after the real Initialize, at an instruction boundary"""
    pass


def h_read(eng, st, args, site):
    addr = args[1]
    k = sum(1 for ev in st.trace if ev[0] == "R")
    script = st.ghost.get("script", ())
    if k < len(script):
        v = z3.BitVecVal(script[k], 8)
    else:
        v = z3.BitVec("rd%d" % k, 8)
    st.trace = st.trace + (("R", addr, v, st.ghost.get("cycle", 0), str(args[0].obj)),)
    return [(st, v)]


IE_BITS = [("vblank", 0x01), ("stat", 0x02), ("timer", 0x04), ("serial", 0x08), ("joypad", 0x10)]


def h_write(eng, st, args, site):
    """the bus, seen from the CPU: an event of the trace - and, because IE (FFFF) and IF (FF0F) are memory mapped, a write to
    one of these two addresses changes the interrupt registers the CPU itself consults (stack or data placed there). The two
    effects are the contracts of Interrupts.WriteIE / WriteIF behind the decoder's routing (C06 lemma, C04 contracts)."""
    addr, val = args[1], args[2]
    st.trace = st.trace + (("W", addr, val, st.ghost.get("cycle", 0), str(args[0].obj)),)
    ip = (st.ghost.get("ints_of") or {}).get(str(args[0].obj), st.ghost.get("ints"))
    if ip is not None:
        tid = eng.p.named["interrupts.Interrupts"]

        def upd(name, cond, new):
            path = eng.p.field_index(tid, name)
            if path is None:
                return
            ptr = Ptr(ip, tuple(i for i, _ in path))
            old = eng.load(st, ptr)
            eng.store(st, ptr, z3.If(cond, new, old))
        is_ie, is_if = addr == 0xFFFF, addr == 0xFF0F
        upd("ieHighBits", is_ie, val & 0xe0)
        for nm, bit in IE_BITS:
            upd(nm + "Enabled", is_ie, (val & bit) != 0)
            upd(nm + "Requested", is_if, (val & bit) != 0)
    return [(st, None)]


def intr_after_writes(fields, writes):
    """spec side of the same fact: the interrupt register fields after a sequence of bus writes (addr, value)"""
    out = dict(fields)
    for (addr, val) in writes:
        is_ie, is_if = addr == 0xFFFF, addr == 0xFF0F
        out["ieHighBits"] = z3.If(is_ie, val & 0xe0, out["ieHighBits"])
        for nm, bit in IE_BITS:
            out[nm + "Enabled"] = z3.If(is_ie, (val & bit) != 0, out[nm + "Enabled"])
            out[nm + "Requested"] = z3.If(is_if, (val & bit) != 0, out[nm + "Requested"])
    return out


INTR_FIELDS = ["ieHighBits"] + [nm + sfx for nm, _ in IE_BITS for sfx in ("Enabled", "Requested")]


def h_trigger(eng, st, args, site):
    st.trace = st.trace + (("T", args[1], st.ghost.get("cycle", 0)),)
    return [(st, None)]


def h_corrupt(eng, st, args, site):
    st.trace = st.trace + (("K", st.ghost.get("cycle", 0)),)
    return [(st, None)]


def make_base(ctx, eng, ce, second_cpu=False):
    st = State()
    ctx.seed_globals(st)
    ov = {"CPU.currentMetadata": nil_ov}
    w = World(eng, st, ov)
    cpu = w.component("cpu.CPU")
    eng.ev = ce
    eng.modular = set()
    eng.abstract = dict(eng.abstract)
    eng.abstract.update({"(*memory.Mapper).Read": h_read, "(*memory.Mapper).Write": h_write,
                         "(*oam.OAM).TriggerWriteCorruption": h_trigger, "(*oam.OAM).Corrupt": h_corrupt})
    outs = eng.call_function(st, ctx.prog.func(CPU + "Initialize").name, [cpu])
    assert len(outs) == 1, "Initialize forked"
    st = outs[0][0]
    b = Base()
    b.st, b.w, b.cpu = st, w, cpu
    b.tid = ctx.prog.named["cpu.CPU"]
    b.ints = w.component("interrupts.Interrupts")
    st.ghost["ints"] = b.ints.obj
    # instruction boundary as left by cpu.New: no sub-instructions pending, cycle 0
    set_field(eng, st, b, "currentCycle", z3.BitVecVal(0, 64))
    set_field(eng, st, b, "debugCPU", z3.BoolVal(False))
    # interrupts' calls are replaced by their contracts
    eng.modular = {k for k, c in ce.contracts.items() if c.short.startswith("(*interrupts.Interrupts)") and c.assigns is not None}
    eng.contracts = ce.contracts
    return b


def table_entry(eng, st, b, name, idx):
    """entry idx of a dispatch table, whether the tables are CPU fields or package-level variables"""
    if eng.p.field_index(b.tid, name) is not None:
        arr = fld(eng, st, b, name)
    else:
        arr = st.heap.get("g:cpu." + name)
    return arr.items[idx]


def poison_boundary(eng, st, b):
    """an instruction boundary as left by a conditional instruction that ran to its last cycle (RET NZ): every piece of
    per-instruction state holds stale non-default values that the next fetch must overwrite"""
    set_field(eng, st, b, "currentSubinstructions", table_entry(eng, st, b, "normal", 0xc0))
    set_field(eng, st, b, "currentIsFinishedEarly", table_entry(eng, st, b, "isFinishedEarlys", 0xc0))
    set_field(eng, st, b, "currentCycle", z3.BitVecVal(5, 64))
    set_field(eng, st, b, "currentInstruction", z3.BitVecVal(0xc0, 8))


def same_value(eng, x, y):
    """violation term: x and y differ (structural for references)"""
    if is_z3(x) and is_z3(y):
        if x.eq(y):
            return z3.BoolVal(False)
        return x != y
    from engine.core import ZArr
    if isinstance(x, ZArr) and isinstance(y, ZArr):
        return z3.BoolVal(False) if x.term.eq(y.term) else x.term != y.term
    if isinstance(x, SliceV) and isinstance(y, SliceV):
        same = x.obj == y.obj and x.path == y.path and concrete_int(x.off) == concrete_int(y.off) and concrete_int(x.len) == concrete_int(y.len)
        return z3.BoolVal(not same)
    if isinstance(x, Closure) and isinstance(y, Closure):
        same = x.fn == y.fn and len(x.bind) == len(y.bind) and all((isinstance(p, Ptr) and p.same(q)) or p is q for p, q in zip(x.bind, y.bind))
        return z3.BoolVal(not same)
    if isinstance(x, (StructV, ArrV)) and type(x) is type(y) and len(x.items) == len(y.items):
        return z3.Or(*[same_value(eng, p, q) for p, q in zip(x.items, y.items)]) if x.items else z3.BoolVal(False)
    if isinstance(x, Ptr) and isinstance(y, Ptr):
        return z3.BoolVal(not x.same(y))
    return z3.BoolVal(x is not y)


def boundary_independent(ctx, eng, b, pre_state, script):
    """violation: the first machine cycle of the instruction leaves a different CPU state / bus trace when the boundary
    holds stale per-instruction state (poison) than from the power-on boundary"""
    emc = ctx.prog.func(CPU + "ExecuteMachineCycle").name
    res = []
    for poison in (False, True):
        s = pre_state.fork()
        if poison:
            poison_boundary(eng, s, b)
        s.ghost["script"] = tuple(script)
        s.ghost["cycle"] = 1
        saved_t, saved_o = eng.terminals, eng.obligs
        eng.terminals, eng.obligs = [], []
        outs = eng.call_function(s, emc, [b.cpu])
        res.append((outs, list(eng.terminals)))
        eng.terminals, eng.obligs = saved_t, saved_o
    (oa, ta), (ob_, tb) = res
    if len(ta) != len(tb):
        return z3.BoolVal(True)
    viol = []
    # every feasible combination of a power-on-boundary outcome and a stale-boundary outcome must agree
    for (sa, _) in oa:
        for (sb, _) in ob_:
            both = z3.And(sa.pcond(), sb.pcond())
            d = []
            if len(sa.trace) != len(sb.trace) or any(ea[0] != eb[0] for ea, eb in zip(sa.trace, sb.trace)):
                d.append(z3.BoolVal(True))
            else:
                for ea, eb in zip(sa.trace, sb.trace):
                    for x, y in zip(ea[1:], eb[1:]):
                        if is_z3(x) and is_z3(y):
                            d.append(same_value(eng, x, y))
            d.append(same_value(eng, sa.heap[b.cpu.obj], sb.heap[b.cpu.obj]))
            d.append(same_value(eng, sa.heap[b.ints.obj], sb.heap[b.ints.obj]))
            viol.append(z3.And(both, z3.Or(*d)))
    if not oa and ob_ or oa and not ob_:
        return z3.BoolVal(True)
    return z3.Or(*viol) if viol else z3.BoolVal(False)


def fld(eng, st, b, name):
    path = eng.p.field_index(b.tid, name)
    return eng.load(st, Ptr(b.cpu.obj, tuple(i for i, _ in path)))


def set_field(eng, st, b, name, val):
    path = eng.p.field_index(b.tid, name)
    eng.store(st, Ptr(b.cpu.obj, tuple(i for i, _ in path)), val)


def ifld(eng, st, b, name):
    tid = eng.p.named["interrupts.Interrupts"]
    path = eng.p.field_index(tid, name)
    return eng.load(st, Ptr(b.ints.obj, tuple(i for i, _ in path)))


def pending_term(eng, st, b):
    en = ["vblank", "stat", "timer", "serial", "joypad"]
    return z3.Or(*[z3.And(ifld(eng, st, b, e + "Enabled"), ifld(eng, st, b, e + "Requested")) for e in en])


# opcodes whose execution steps a 16-bit register through the increment/decrement unit: (register, total documented change)
IDU_STEPS = {0x03: ("bc", 1), 0x13: ("de", 1), 0x23: ("hl", 1), 0x33: ("sp", 1), 0x0B: ("bc", -1), 0x1B: ("de", -1), 0x2B: ("hl", -1),
             0x3B: ("sp", -1), 0x22: ("hl", 1), 0x2A: ("hl", 1), 0x32: ("hl", -1), 0x3A: ("hl", -1)}
for _o in (0xC5, 0xD5, 0xE5, 0xF5, 0xCD, 0xC4, 0xCC, 0xD4, 0xDC, 0xC7, 0xCF, 0xD7, 0xDF, 0xE7, 0xEF, 0xF7, 0xFF):
    IDU_STEPS[_o] = ("sp", -2)
for _o in (0xC1, 0xD1, 0xE1, 0xF1, 0xC9, 0xD9, 0xC0, 0xC8, 0xD0, 0xD8):
    IDU_STEPS[_o] = ("sp", 2)


def pre_regs(eng, st, b):
    d = {r: fld(eng, st, b, r) for r in REGS8}
    d["sp"] = fld(eng, st, b, "sp")
    d["pc"] = fld(eng, st, b, "pc")
    d["ime"] = ifld(eng, st, b, "ime")
    return d


def run_to_boundary(ctx, eng, b, st, script, maxcalls=8, first_only=False, cycle0=0):
    """call the real ExecuteMachineCycle until the real isFinished() holds again.
    returns list of (state, ncalls); exits/panics are left in eng.terminals"""
    emc = ctx.prog.func(CPU + "ExecuteMachineCycle").name
    fin = ctx.prog.func(CPU + "isFinished").name
    st.ghost["script"] = tuple(script)
    work = [(st, 0)]
    finals = []
    while work:
        s, n = work.pop()
        if n > 0:
            outs = eng.call_function(s, fin, [b.cpu])
            cont = []
            for (s2, bt) in outs:
                cb = concrete_bool(bt)
                if cb is True:
                    finals.append((s2, n))
                elif cb is False:
                    cont.append(s2)
                else:
                    sf = s2.fork()
                    sf.pc.append(bt)
                    if eng.feasible(sf):
                        finals.append((sf, n))
                    s2.pc.append(z3.Not(bt))
                    if eng.feasible(s2):
                        cont.append(s2)
            if first_only:
                finals.extend((c, n) for c in cont)
                continue
        else:
            cont = [s]
        for s2 in cont:
            if n >= maxcalls:
                raise Unsupported("instruction did not finish within %d machine cycles" % maxcalls)
            s2.ghost["cycle"] = cycle0 + n + 1
            for (s3, _) in eng.call_function(s2, emc, [b.cpu]):
                work.append((s3, n + 1))
    return finals


def opname(op, cb=None):
    return "op_0x%02X" % op if cb is None else "op_0xCB%02X" % cb


def bus_events(trace):
    return [ev for ev in trace if ev[0] in ("R", "W")]


def instruction_lemma(ctx, eng, ce, b, op, cb=None, haltbug=False):
    """returns dict of obligation-name-suffix -> (violation formula, state) for one opcode, split by aspect"""
    p = ctx.prog
    st = b.st.fork()
    pre = pre_regs(eng, st, b)
    # lemma hypotheses: boundary, nothing to dispatch, running, F low nibble zero, no halt bug pending
    hb = fld(eng, st, b, "haltbug")
    hyp = [z3.Not(z3.And(pre["ime"], pending_term(eng, st, b))), z3.Not(fld(eng, st, b, "halted")),
           z3.Not(fld(eng, st, b, "stopped")), (hb if haltbug else z3.Not(hb)), (pre["f"] & 0x0f) == 0]
    hyp += boundary_hyps(eng, st, b)
    for h in hyp:
        st.pc.append(h)
    pre_state = st.fork()
    eng.terminals = []
    eng.obligs = []
    script = [op] if cb is None else [0xCB, cb]
    finals = run_to_boundary(ctx, eng, b, st, script)
    out = {"regs": [], "flags": [], "mem": [], "frame": [], "cycles": [], "accesses": [], "flow": [], "nopanic": [], "boundary": [], "oambug": []}
    if not haltbug:
        out["boundary"].append((boundary_independent(ctx, eng, b, pre_state, script), pre_state))
    name = opname(op, cb)
    conditional = cb is None and sm83.is_conditional(op)
    rdsyms = {}

    def mkrd(start):
        cnt = [start]

        def rd():
            k = cnt[0]
            cnt[0] += 1
            return z3.BitVec("rd%d" % k, 8)
        return rd
    nscript = len(script)
    specs = {}
    spre = dict(pre)
    if haltbug:
        # the halt bug: the opcode fetch does not advance PC, i.e. the instruction runs as if it were located one byte earlier
        spre["pc"] = pre["pc"] - 1
    for taken in ((True, False) if conditional else (True,)):
        specs[taken] = sm83.spec(op, cb, spre, mkrd(nscript), taken)
    if specs[True].special == "undefined":
        # the only deliberate stop: os.Exit through the `fatal` closure, nothing else
        exits = [t for t in eng.terminals if t.kind == "exit"]
        ok = len(exits) >= 1 and not finals and all(t.kind == "exit" for t in eng.terminals)
        out["flow"].append((z3.BoolVal(not ok), pre_state))
        out["_finals"] = []
        return out, pre_state, specs
    for t in eng.terminals:
        out["nopanic"].append((t.state.pcond(), t.state))
    for ob in eng.obligs:
        out["nopanic"].append((ob.viol, ob.state))
    if not finals:
        out["flow"].append((z3.BoolVal(True), pre_state))
    for (s, n) in finals:
        pc = s.pcond()
        for taken, sp in specs.items():
            if conditional:
                guard = z3.And(pc, sp.cond if taken else z3.Not(sp.cond))
            else:
                guard = pc
            # cycles (C02)
            out["cycles"].append((z3.And(guard, z3.BoolVal(n != sp.cycles)), s))
            # registers (C01)
            for r in ("a", "b", "c", "d", "e", "h", "l", "sp", "pc"):
                out["regs"].append((z3.And(guard, fld(eng, s, b, r) != sp.regs[r]), s))
            out["flags"].append((z3.And(guard, fld(eng, s, b, "f") != sp.regs["f"]), s))
            out["flags"].append((z3.And(guard, (fld(eng, s, b, "f") & 0x0f) != 0), s))
            # bus trace: memory effect (C01) and access cycles (C03)
            evs = bus_events(s.trace)[nscript:]
            want = sp.events
            if len(evs) != len(want) or any(e[0] != ("R" if wv[1] in ("R", "F") else "W") for e, wv in zip(evs, want)):
                out["mem"].append((guard, s))
                out["accesses"].append((guard, s))
            else:
                memv, accv = [], []
                for e, wv in zip(evs, want):
                    memv.append(e[1] != wv[2])
                    if wv[1] == "W":
                        memv.append(e[2] != wv[3])
                    if wv[0] is not None:
                        accv.append(z3.BoolVal(e[3] != wv[0]))
                        # "the documented access": in that cycle the bus sees the documented address (C03 is about the
                        # machine cycle in which a location is touched, so a right cycle with a wrong address is no access)
                        accv.append(e[1] != wv[2])
                out["mem"].append((z3.And(guard, z3.Or(*memv)) if memv else z3.BoolVal(False), s))
                out["accesses"].append((z3.And(guard, z3.Or(*accv)) if accv else z3.BoolVal(False), s))
            # order inside a machine cycle: the OAM-bug bookkeeping (oam.Corrupt) is applied exactly once per executed cycle and
            # after that cycle's own bus accesses and triggers, so OAM sees an access in the cycle it is made in
            def _cyc(e):
                return e[3] if e[0] in ("R", "W") else (e[2] if e[0] == "T" else e[1])
            evs_all = s.trace[len(pre_state.trace):]
            ok_order = True
            for c in range(1, n + 1):
                es = [e for e in evs_all if _cyc(e) == c]
                ks = [i for i, e in enumerate(es) if e[0] == "K"]
                if len(ks) != 1 or ks[0] != len(es) - 1:
                    ok_order = False
            out["oambug"].append((z3.And(guard, z3.BoolVal(not ok_order)), s))
            # what the hook is told: the address the 16-bit increment/decrement unit sees, i.e. a value the register holds
            # BEFORE one of its steps in this instruction (never the value after the last step), and nothing at all for
            # opcodes that do not step a 16-bit register
            idu = IDU_STEPS.get(op) if cb is None else None
            tv = []
            for e in evs_all:
                if e[0] != "T":
                    continue
                if idu is None:
                    tv.append(z3.BoolVal(True))
                    continue
                rn, dlt = idu
                r0 = pre["sp"] if rn == "sp" else z3.Concat(pre[rn[0]], pre[rn[1]])
                sgn = 1 if dlt > 0 else -1
                tv.append(z3.And(*[e[1] != r0 + z3.BitVecVal((j * sgn) & 0xffff, 16) for j in range(abs(dlt))]))
            out["oambug"].append((z3.And(guard, z3.Or(*tv)) if tv else z3.BoolVal(False), s))
            # frame: interrupt state, run state
            fr = []
            # interrupt registers: unchanged, except through the instruction's own documented stores to FFFF / FF0F
            want_i = intr_after_writes({nm: ifld(eng, pre_state, b, nm) for nm in INTR_FIELDS},
                                       [(wv[2], wv[3]) for wv in sp.events if wv[1] == "W"])
            for nm in INTR_FIELDS:
                fr.append(ifld(eng, s, b, nm) != want_i[nm])
            # master enable in force while this instruction runs: IME, or an EI whose one-instruction delay ends with this fetch
            ime_eff = z3.Or(pre["ime"], armed(eng, pre_state, b))
            if sp.ime is None:
                fr.append(ifld(eng, s, b, "ime") != ime_eff)
            elif sp.ime is True or sp.ime is False:
                fr.append(ifld(eng, s, b, "ime") != z3.BoolVal(sp.ime))
            if sp.ime == "ei":
                # EI: nothing changes yet (IME keeps the value in force), the enable is armed or already in force
                fr.append(ifld(eng, s, b, "ime") != ime_eff)
                fr.append(z3.Not(z3.Or(armed(eng, s, b), ifld(eng, s, b, "ime"))))
            else:
                fr.append(armed(eng, s, b))
            if sp.special is None:
                fr.append(fld(eng, s, b, "halted"))
                fr.append(fld(eng, s, b, "stopped"))
                fr.append(fld(eng, s, b, "haltbug"))
            elif sp.special == "stop":
                fr.append(z3.Not(fld(eng, s, b, "stopped")))
                fr.append(fld(eng, s, b, "halted"))
            out["frame"].append((z3.And(guard, z3.Or(*fr)), s))
    out["_finals"] = finals
    return out, pre_state, specs


ASPECTS = {"C11": ["flow", "nopanic"], "C04": ["frame", "flow", "boundary"], "C05": ["regs", "flags", "mem", "frame", "cycles", "flow"],
           "C01": ["regs", "flags", "mem", "frame", "flow", "nopanic", "boundary"], "C02": ["cycles", "flow", "boundary", "frame"],
           "C03": ["accesses", "flow", "boundary", "oambug"], "C23": ["mem", "flow", "frame"], "C17": ["oambug", "flow"]}


def opcode_chunks(nchunks=32):
    ops = [(o, None) for o in range(256) if o != 0xCB] + [(0xCB, c) for c in range(256)]
    return [ops[i::nchunks] for i in range(nchunks)]


def store_opcodes():
    """opcodes whose documented effect includes a bus write (per spec/sm83.py), as (op, cb) pairs"""
    out = []
    names = ["a", "b", "c", "d", "e", "h", "l", "f"]
    pre = {r: z3.BitVec("s_" + r, 8) for r in names}
    pre.update({"sp": z3.BitVec("s_sp", 16), "pc": z3.BitVec("s_pc", 16), "ime": z3.Bool("s_ime")})
    for (op, cb) in [(o, None) for o in range(256) if o != 0xCB] + [(0xCB, c) for c in range(256)]:
        if cb is None and op in sm83.UNDEFINED:
            continue
        k = [0]

        def rd():
            k[0] += 1
            return z3.BitVec("s_rd%d" % k[0], 8)
        try:
            sp = sm83.spec(op, cb, pre, rd, True)
        except Exception:
            continue
        if any(e[1] == "W" for e in (sp.events or [])):
            out.append((op, cb))
    return out


def opcode_task(prop, chunk, idx):
    def run(ctx, eng, ce):
        lem = Lem()
        b = make_base(ctx, eng, ce)
        lem.covers.append(("lemma:opcodes#cover:boundary[%d]" % idx, b.st.pcond()))
        for (op, cb) in chunk:
            out, pre_state, specs = instruction_lemma(ctx, eng, ce, b, op, cb)
            nm = opname(op, cb)
            for asp in ASPECTS[prop]:
                items = out[asp]
                if not items:
                    viol = z3.BoolVal(False)
                else:
                    viol = z3.Or(*[v for v, _ in items])
                ob = lem.add("lemma:%s:%s" % (nm, asp), viol, kind="lemma", state=None,
                             info={"op": op, "cb": cb, "aspect": asp, "replay": (boundary_replay if asp == "boundary" else cpu_replay)})
                ob.pre = pre_state
                ob.base = b
                ob.eng = eng
                ob.finals = out["_finals"]
                if concrete_bool(viol) is False:
                    ob.trivial = True
        lem.stats = dict(eng.stats)
        return lem
    return LemmaTask("opcodes[%d]" % idx, run, ["(*cpu.CPU).ExecuteMachineCycle", "(*cpu.CPU).next", "(*cpu.CPU).isFinished",
                                              "(*cpu.CPU).Initialize (tables computed)"])


def cpu_replay(ctx, prop, ob, res):
    from props.cpu_replay import replay_instruction
    return replay_instruction(ctx, prop, ob, res)


# ------------------------------------------------------------------ interrupts (C04) and HALT (C05)
IBITS = ["vblank", "stat", "timer", "serial", "joypad"]
ARCH_FIELDS = ["a", "b", "c", "d", "e", "f", "h", "l", "sp", "pc", "halted", "haltbug", "stopped"]


def has_field(eng, b, name):
    return eng.p.field_index(b.tid, name) is not None


def armed(eng, st, b):
    """a delayed enable (EI executed, IME not yet set) is pending in state st - if the implementation keeps such a flag"""
    t = z3.BoolVal(False)
    for nm in ("eiPending", "eiDelay", "imeScheduled", "enableInterrupts"):
        if has_field(eng, b, nm):
            v = fld(eng, st, b, nm)
            t = z3.Or(t, v if z3.is_bool(v) else v != 0)
    return t


def boundary_hyps(eng, st, b):
    """hypotheses on an arbitrary instruction boundary: none - in particular a delayed enable may be pending (the previous
    instruction was EI), whatever the master enable is"""
    return []


def no_pending_enable(eng, st, b):
    """instruction boundary with no delayed-EI pending (if the implementation keeps such a flag)"""
    hy = []
    for nm in ("eiPending", "eiDelay", "imeScheduled", "enableInterrupts"):
        if has_field(eng, b, nm):
            v = fld(eng, st, b, nm)
            if z3.is_bool(v):
                hy.append(z3.Not(v))
            else:
                hy.append(v == 0)
    return hy


def prio_terms(eng, st, b):
    """(index term 0..4 of the highest-priority pending interrupt, list of pending bools)"""
    pend = [z3.And(ifld(eng, st, b, e + "Enabled"), ifld(eng, st, b, e + "Requested")) for e in IBITS]
    idx = z3.BitVecVal(4, 16)
    for i in (3, 2, 1, 0):
        idx = z3.If(pend[i], z3.BitVecVal(i, 16), idx)
    return idx, pend


def dispatch_check(eng, b, pre_state, s, n, want_cycles, guard, allow_reads=False):
    """violation terms for: state s (after n calls) is the documented interrupt dispatch from pre_state"""
    v = {}
    idx, pend = prio_terms(eng, pre_state, b)
    pc0, sp0 = fld(eng, pre_state, b, "pc"), fld(eng, pre_state, b, "sp")
    v["cycles"] = z3.BoolVal(n != want_cycles)
    v["vector"] = fld(eng, s, b, "pc") != z3.BitVecVal(0x40, 16) + idx * 8
    v["sp"] = fld(eng, s, b, "sp") != sp0 - 2
    v["ime"] = z3.Or(ifld(eng, s, b, "ime"), armed(eng, s, b))   # cleared, and no delayed enable survives the dispatch
    # IF: exactly the chosen bit cleared, IE untouched - decided on the registers as they are at the boundary; only then the two
    # pushes go out on the bus (and, should the stack lie on FFFF / FF0F, land in IE / IF like any other store)
    f0 = {nm: ifld(eng, pre_state, b, nm) for nm in INTR_FIELDS}
    for i, e in enumerate(IBITS):
        f0[e + "Requested"] = z3.And(f0[e + "Requested"], idx != i)
    want_i = intr_after_writes(f0, [(sp0 - 1, z3.Extract(15, 8, pc0)), (sp0 - 2, z3.Extract(7, 0, pc0))])
    v["if-ie"] = z3.Or(*[ifld(eng, s, b, nm) != want_i[nm] for nm in INTR_FIELDS])
    evs = bus_events(s.trace)[len(bus_events(pre_state.trace)):]
    if len(evs) != 2 or evs[0][0] != "W" or evs[1][0] != "W":
        v["stack"] = z3.BoolVal(True)
    else:
        v["stack"] = z3.Or(evs[0][1] != sp0 - 1, evs[0][2] != z3.Extract(15, 8, pc0), evs[1][1] != sp0 - 2,
                           evs[1][2] != z3.Extract(7, 0, pc0))
    regs = [fld(eng, s, b, r) != fld(eng, pre_state, b, r) for r in ("a", "b", "c", "d", "e", "f", "h", "l")]
    regs += [fld(eng, s, b, "halted"), fld(eng, s, b, "haltbug") != fld(eng, pre_state, b, "haltbug"),
             fld(eng, s, b, "stopped") != fld(eng, pre_state, b, "stopped")]
    v["regs"] = z3.Or(*regs)
    # the OAM-bug hook in the dispatch cycles: at most once per machine cycle, and every cycle that touches the bus (the two
    # pushes - the stack may lie in OAM) ends with it
    def _cyc(e):
        return e[3] if e[0] in ("R", "W") else (e[2] if e[0] == "T" else e[1])
    evs_all = s.trace[len(pre_state.trace):]
    ok_order = True
    for c in sorted({_cyc(e) for e in evs_all if e[0] in ("R", "W", "T", "K")}):
        es = [e for e in evs_all if _cyc(e) == c]
        ks = [i for i, e in enumerate(es) if e[0] == "K"]
        if len(ks) > 1 or (any(e[0] in ("R", "W", "T") for e in es) and (len(ks) != 1 or ks[0] != len(es) - 1)):
            ok_order = False
    v["oambug"] = z3.BoolVal(not ok_order)
    return {k: z3.And(guard, x) for k, x in v.items()}


def add_group(lem, prefix, finals, mk, pre_state, info=None):
    """merge the violation terms of all final states per aspect into one obligation each"""
    agg = {}
    for (s, n) in finals:
        for k, x in mk(s, n).items():
            agg.setdefault(k, []).append(x)
    for k, xs in agg.items():
        viol = z3.Or(*xs)
        ob = lem.add("%s:%s" % (prefix, k), viol, kind="lemma", info=info or {})
        ob.pre = pre_state
        if concrete_bool(viol) is False:
            ob.trivial = True
    return agg


def interrupt_lemmas(ctx, eng, ce):
    lem = Lem()
    b = make_base(ctx, eng, ce)
    p = ctx.prog
    # ---- L-dispatch: boundary, IME, something pending, running
    st = b.st.fork()
    pre = pre_regs(eng, st, b)
    hyp = [pre["ime"], pending_term(eng, st, b), z3.Not(fld(eng, st, b, "halted")), z3.Not(fld(eng, st, b, "stopped")),
           (pre["f"] & 0x0f) == 0] + boundary_hyps(eng, st, b)
    for h in hyp:
        st.pc.append(h)
    pre_state = st.fork()
    lem.covers.append(("lemma:dispatch#cover", pre_state.pcond()))
    eng.terminals, eng.obligs = [], []
    finals = run_to_boundary(ctx, eng, b, st, [])
    if not finals:
        lem.add("lemma:dispatch:flow", z3.BoolVal(True))
    info = {"replay": lambda c, pr, ob, res: dispatch_replay(c, pr, ob, res)}
    for (s, n) in finals:
        pass
    agg = add_group(lem, "lemma:dispatch", finals,
                    lambda s, n: dict(dispatch_check(eng, b, pre_state, s, n, 5, s.pcond()),
                                      **{"no-fetch": z3.And(s.pcond(), z3.BoolVal(any(e[0] == "R" for e in bus_events(s.trace))))}),
                    pre_state, info)
    for ob in lem.obligs:
        ob.base, ob.eng, ob.finals = b, eng, finals
    for t in eng.terminals:
        lem.add("lemma:dispatch:no-panic", t.state.pcond())
    # ---- canary: a deliberately false claim must fail (vacuity guard)
    if finals:
        s, n = finals[0]
        lem.add("canary:dispatch-keeps-ime", z3.And(s.pcond(), z3.Not(ifld(eng, s, b, "ime"))), info={"canary": True})
    # ---- L-EI-delay: EI with a request pending: the following instruction runs first, then the dispatch
    for second, nm in ((0x00, "nop"), (0x04, "inc-b")):
        st = b.st.fork()
        pre = pre_regs(eng, st, b)
        hyp = [z3.Not(pre["ime"]), pending_term(eng, st, b), z3.Not(fld(eng, st, b, "halted")), z3.Not(fld(eng, st, b, "stopped")),
               z3.Not(fld(eng, st, b, "haltbug")), (pre["f"] & 0x0f) == 0] + no_pending_enable(eng, st, b)
        for h in hyp:
            st.pc.append(h)
        pre_state = st.fork()
        eng.terminals, eng.obligs = [], []
        f1 = run_to_boundary(ctx, eng, b, st, [0xFB, second])
        viol_second, viol_third = [], []
        finals3 = []
        for (s1, n1) in f1:
            f2 = run_to_boundary(ctx, eng, b, s1, [0xFB, second], cycle0=n1)
            for (s2, n2) in f2:
                evs = bus_events(s2.trace)
                # the instruction after EI must have been fetched from pc+1 and executed
                ok_shape = len(evs) == 2 and evs[1][0] == "R"
                if not ok_shape:
                    viol_second.append(s2.pcond())
                else:
                    want_b = pre["b"] + 1 if second == 0x04 else pre["b"]
                    viol_second.append(z3.And(s2.pcond(), z3.Or(evs[1][1] != pre["pc"] + 1, fld(eng, s2, b, "pc") != pre["pc"] + 2,
                                                                fld(eng, s2, b, "b") != want_b, fld(eng, s2, b, "sp") != pre["sp"])))
                mid = s2.fork()
                f3 = run_to_boundary(ctx, eng, b, s2, [0xFB, second, 0x00], cycle0=n1 + n2)
                for (s3, n3) in f3:
                    chk = dispatch_check(eng, b, mid, s3, n3, 5, s3.pcond())
                    viol_third.append(z3.Or(*chk.values()))
                    finals3.append((s3, n1 + n2 + n3))
        o1 = lem.add("lemma:ei-delay[%s]:next-instruction-runs-first" % nm, z3.Or(*viol_second) if viol_second else z3.BoolVal(True),
                     info={"replay": lambda c, pr, ob, res: ei_replay(c, pr, ob, res)})
        o2 = lem.add("lemma:ei-delay[%s]:then-dispatch" % nm, z3.Or(*viol_third) if viol_third else z3.BoolVal(True))
        for ob in (o1, o2):
            ob.pre, ob.base, ob.eng, ob.finals, ob.second = pre_state, b, eng, finals3, second
            ob.info = dict(ob.info or {}, ninstr=3, replay=lambda c, pr, o, res: ei_replay(c, pr, o, res))
    # ---- EI ; DI leaves interrupts disabled and nothing is dispatched
    st = b.st.fork()
    pre = pre_regs(eng, st, b)
    hyp = [z3.Not(pre["ime"]), pending_term(eng, st, b), z3.Not(fld(eng, st, b, "halted")), z3.Not(fld(eng, st, b, "stopped")),
           z3.Not(fld(eng, st, b, "haltbug")), (pre["f"] & 0x0f) == 0] + no_pending_enable(eng, st, b)
    for h in hyp:
        st.pc.append(h)
    pre_state = st.fork()
    viol = []
    fin_ed = []
    for (s1, n1) in run_to_boundary(ctx, eng, b, st, [0xFB, 0xF3, 0x00]):
        for (s2, n2) in run_to_boundary(ctx, eng, b, s1, [0xFB, 0xF3, 0x00], cycle0=n1):
            for (s3, n3) in run_to_boundary(ctx, eng, b, s2, [0xFB, 0xF3, 0x00], cycle0=n1 + n2):
                fin_ed.append((s3, n1 + n2 + n3))
                evs = bus_events(s3.trace)
                shape = len(evs) == 3 and all(e[0] == "R" for e in evs)
                viol.append(z3.And(s3.pcond(), z3.Or(z3.BoolVal(not shape), ifld(eng, s3, b, "ime"), fld(eng, s3, b, "pc") != pre["pc"] + 3,
                                                     fld(eng, s3, b, "sp") != pre["sp"])))
    ob = lem.add("lemma:ei-di:no-dispatch", z3.Or(*viol) if viol else z3.BoolVal(True),
                 info={"ninstr": 3, "replay": lambda c, pr, o, res: ei_replay(c, pr, o, res)})
    ob.pre, ob.base, ob.eng, ob.finals = pre_state, b, eng, fin_ed
    lem.stats = dict(eng.stats)
    return lem


def dispatch_replay(ctx, prop, ob, res):
    from props.cpu_replay import replay_instruction
    return replay_instruction(ctx, prop, ob, res)


def ei_replay(ctx, prop, ob, res):
    from props.cpu_replay import replay_instruction
    return replay_instruction(ctx, prop, ob, res)


def state_same(eng, b, s, pre_state, extra_ok=()):
    return _state_same(eng, b, s, pre_state, extra_ok)


def _state_same(eng, b, s, pre_state, extra_ok=()):
    """violation: some architectural CPU field or interrupt register differs between s and pre_state"""
    v = []
    for r in ARCH_FIELDS:
        if r in extra_ok:
            continue
        v.append(fld(eng, s, b, r) != fld(eng, pre_state, b, r))
    for e in IBITS:
        v.append(ifld(eng, s, b, e + "Requested") != ifld(eng, pre_state, b, e + "Requested"))
        v.append(ifld(eng, s, b, e + "Enabled") != ifld(eng, pre_state, b, e + "Enabled"))
    if "ime" not in extra_ok:
        v.append(ifld(eng, s, b, "ime") != ifld(eng, pre_state, b, "ime"))
    v.append(ifld(eng, s, b, "ieHighBits") != ifld(eng, pre_state, b, "ieHighBits"))
    return z3.Or(*v)


def halt_lemmas(ctx, eng, ce):
    lem = Lem()
    b = make_base(ctx, eng, ce)
    emc = ctx.prog.func(CPU + "ExecuteMachineCycle").name

    def start(hyps):
        st = b.st.fork()
        pre = pre_regs(eng, st, b)
        # a halted CPU has no delayed enable pending: lemma halt-executed:ime proves HALT leaves none
        for h in hyps(st, pre) + [(pre["f"] & 0x0f) == 0] + no_pending_enable(eng, st, b):
            st.pc.append(h)
        return st, pre, st.fork()

    def rep(ninstr=1):
        return {"ninstr": ninstr, "replay": lambda c, pr, o, res: dispatch_replay(c, pr, o, res)}
    # (1) HALT executed: halts unless IME is clear and a request is already pending (then: halt bug).
    #     IME at execution time includes an EI whose one-instruction delay ends with this fetch.
    def armed_term(st_):
        t = z3.BoolVal(False)
        for nm in ("eiPending", "eiDelay", "imeScheduled", "enableInterrupts"):
            if has_field(eng, b, nm):
                v = fld(eng, st_, b, nm)
                t = z3.Or(t, v if z3.is_bool(v) else v != 0)
        return t
    st = b.st.fork()
    pre = pre_regs(eng, st, b)
    for h in [z3.Not(z3.And(pre["ime"], pending_term(eng, st, b))), z3.Not(fld(eng, st, b, "halted")), z3.Not(fld(eng, st, b, "stopped")),
              z3.Not(fld(eng, st, b, "haltbug")), (pre["f"] & 0x0f) == 0]:
        st.pc.append(h)
    pre_state = st.fork()
    lem.covers.append(("lemma:halt#cover", pre_state.pcond()))
    lem.covers.append(("lemma:halt#cover:ime-and-pending-at-execution", z3.And(pre_state.pcond(), armed_term(pre_state), pending_term(eng, pre_state, b))))
    eng.terminals, eng.obligs = [], []
    finals = run_to_boundary(ctx, eng, b, st, [0x76])
    pend0 = pending_term(eng, pre_state, b)
    ime_exec = z3.Or(pre["ime"], armed_term(pre_state))
    bug = z3.And(z3.Not(ime_exec), pend0)

    def chk_halt(s, n):
        g = s.pcond()
        evs = bus_events(s.trace)
        return {"decision": z3.And(g, z3.Or(fld(eng, s, b, "halted") != z3.Not(bug), fld(eng, s, b, "haltbug") != bug)),
                "one-cycle": z3.And(g, z3.BoolVal(n != 1 or len(evs) != 1)),
                "ime": z3.And(g, z3.Or(ifld(eng, s, b, "ime") != ime_exec, armed_term(s))),
                "rest-unchanged": z3.And(g, z3.Or(fld(eng, s, b, "pc") != pre["pc"] + 1,
                                                  state_same(eng, b, s, pre_state, ("pc", "halted", "haltbug", "ime"))))}
    add_group(lem, "lemma:halt-executed", finals, chk_halt, pre_state, rep())
    if not finals:
        lem.add("lemma:halt-executed:flow", z3.BoolVal(True))
    for ob in lem.obligs:
        ob.base, ob.eng, ob.finals = b, eng, finals
    # (2) idle invariant: halted and nothing pending: one machine cycle changes nothing and touches no bus
    st, pre, pre_state = start(lambda st, pre: [fld(eng, st, b, "halted"), z3.Not(pending_term(eng, st, b)), z3.Not(fld(eng, st, b, "haltbug"))])
    lem.covers.append(("lemma:halt-idle#cover", pre_state.pcond()))
    st.ghost["cycle"] = 1
    outs = eng.call_function(st, emc, [b.cpu])
    viol = []
    for (s, _) in outs:
        viol.append(z3.And(s.pcond(), z3.Or(state_same(eng, b, s, pre_state), z3.BoolVal(len(s.trace) != len(pre_state.trace)))))
    lem.add("lemma:halt-idle:cycle-changes-nothing", z3.Or(*viol) if viol else z3.BoolVal(True))
    lem.add("canary:halt-idle-clears-halted", z3.And(outs[0][0].pcond(), fld(eng, outs[0][0], b, "halted")) if outs else z3.BoolVal(False),
            info={"canary": True})
    # (2b) the same for a CPU stopped by STOP (it leaves that state through OnInput only): no fetch, no bus access, no change
    st, pre, pre_state = start(lambda st, pre: [fld(eng, st, b, "stopped"), z3.Not(pending_term(eng, st, b)), z3.Not(fld(eng, st, b, "haltbug"))])
    lem.covers.append(("lemma:stop-idle#cover", pre_state.pcond()))
    st.ghost["cycle"] = 1
    outs = eng.call_function(st, emc, [b.cpu])
    viol = []
    for (s, _) in outs:
        viol.append(z3.And(s.pcond(), z3.Or(state_same(eng, b, s, pre_state), z3.BoolVal(len(s.trace) != len(pre_state.trace)))))
    lem.add("lemma:stop-idle:cycle-changes-nothing", z3.Or(*viol) if viol else z3.BoolVal(True))
    # (3) halted, IME set, request appears: dispatched, one machine cycle later than from a running CPU
    st, pre, pre_state = start(lambda st, pre: [fld(eng, st, b, "halted"), pending_term(eng, st, b), pre["ime"], z3.Not(fld(eng, st, b, "haltbug"))])
    eng.terminals, eng.obligs = [], []
    finals = run_to_boundary(ctx, eng, b, st, [])
    k0 = len(lem.obligs)
    add_group(lem, "lemma:halt-wake-ime1", finals,
              lambda s, n: dict(dispatch_check(eng, b, pre_state, s, n, 6, s.pcond()),
                                **{"no-fetch": z3.And(s.pcond(), z3.BoolVal(any(e[0] == "R" for e in bus_events(s.trace))))}), pre_state, rep())
    if not finals:
        lem.add("lemma:halt-wake-ime1:flow", z3.BoolVal(True))
    for ob in lem.obligs[k0:]:
        ob.base, ob.eng, ob.finals = b, eng, finals
    # (4) halted, IME clear, request appears: one cycle, nothing dispatched or cleared, then the following instruction
    st, pre, pre_state = start(lambda st, pre: [fld(eng, st, b, "halted"), pending_term(eng, st, b), z3.Not(pre["ime"]), z3.Not(fld(eng, st, b, "haltbug")),
                                                z3.Not(fld(eng, st, b, "stopped"))])
    eng.terminals, eng.obligs = [], []
    finals = run_to_boundary(ctx, eng, b, st, [])
    k0 = len(lem.obligs)
    add_group(lem, "lemma:halt-wake-ime0", finals,
              lambda s, n: {"one-cycle-no-bus": z3.And(s.pcond(), z3.BoolVal(n != 1 or len(bus_events(s.trace)) != 0)),
                            "resumes": z3.And(s.pcond(), fld(eng, s, b, "halted")),
                            "nothing-dispatched": z3.And(s.pcond(), state_same(eng, b, s, pre_state, ("halted",)))}, pre_state, rep())
    fin2 = []
    viol = []
    for (s, n) in finals:
        for (s2, n2) in run_to_boundary(ctx, eng, b, s, [0x00], cycle0=n):
            evs = bus_events(s2.trace)
            viol.append(z3.And(s2.pcond(), z3.Or(z3.BoolVal(len(evs) != 1 or evs[0][0] != "R"), evs[0][1] != pre["pc"] if evs else z3.BoolVal(True),
                                                 fld(eng, s2, b, "pc") != pre["pc"] + 1)))
            fin2.append((s2, n + n2))
    ob = lem.add("lemma:halt-wake-ime0:then-next-instruction", z3.Or(*viol) if viol else z3.BoolVal(True), info=rep(2))
    ob.pre = pre_state
    for ob in lem.obligs[k0:]:
        ob.base, ob.eng = b, eng
        ob.finals = fin2 if ob.name.endswith("then-next-instruction") else finals
    lem.stats = dict(eng.stats)
    return lem


def haltbug_task(chunk, idx):
    def run(ctx, eng, ce):
        lem = Lem()
        b = make_base(ctx, eng, ce)
        for (op, cb) in chunk:
            if cb is None and (op in sm83.UNDEFINED or op == 0x76):
                continue
            out, pre_state, specs = instruction_lemma(ctx, eng, ce, b, op, cb, haltbug=True)
            for asp in ASPECTS["C05"]:
                items = out[asp]
                viol = z3.Or(*[v for v, _ in items]) if items else z3.BoolVal(False)
                ob = lem.add("lemma:haltbug:%s:%s" % (opname(op, cb), asp), viol, kind="lemma",
                             info={"op": op, "cb": cb, "aspect": asp, "replay": cpu_replay})
                ob.pre, ob.base, ob.eng, ob.finals = pre_state, b, eng, out["_finals"]
                if concrete_bool(viol) is False:
                    ob.trivial = True
        lem.stats = dict(eng.stats)
        return lem
    return LemmaTask("haltbug[%d]" % idx, run, ["(*cpu.CPU).next (halt bug path)"])


# ------------------------------------------------------------------ two instances (C25)
def two_instance_lemma(ctx, eng, ce):
    from engine.verify import frame_obligations
    lem = Lem()
    st = State()
    ctx.seed_globals(st)
    ov = {"CPU.currentMetadata": nil_ov}
    eng.ev = ce
    eng.modular = set()
    eng.abstract = dict(eng.abstract)
    eng.abstract.update({"(*memory.Mapper).Read": h_read, "(*memory.Mapper).Write": h_write,
                         "(*oam.OAM).TriggerWriteCorruption": h_trigger, "(*oam.OAM).Corrupt": h_corrupt})
    worlds = []
    for k in (1, 2):
        w = World(eng, st, ov)
        cpu = w.component("cpu.CPU")
        worlds.append((w, cpu))
    init = ctx.prog.func(CPU + "Initialize").name
    # both orders of construction are covered by symmetry of the two symbolic instances: instance 1 first
    for (w, cpu) in worlds:
        outs = eng.call_function(st, init, [cpu])
        assert len(outs) == 1
        st = outs[0][0]
    bases = []
    for (w, cpu) in worlds:
        b = Base()
        b.st, b.w, b.cpu = st, w, cpu
        b.tid = ctx.prog.named["cpu.CPU"]
        b.ints = w.component("interrupts.Interrupts")
        # each instance's bus reaches that instance's own IE / IF
        st.ghost.setdefault("ints_of", {})[str(fld(eng, st, b, "mapper").obj)] = b.ints.obj
        set_field(eng, st, b, "currentCycle", z3.BitVecVal(0, 64))
        set_field(eng, st, b, "debugCPU", z3.BoolVal(False))
        bases.append(b)
    eng.modular = {k for k, c in ce.contracts.items() if c.short.startswith("(*interrupts.Interrupts)") and c.assigns is not None}
    eng.contracts = ce.contracts
    lem.covers.append(("lemma:two-instances#cover", st.pcond()))
    for who, other in ((0, 1), (1, 0)):
        b, bo = bases[who], bases[other]
        for (op, cb) in ((0x04, None), (0xC5, None), (0x3E, None), (0xCB, 0x11), (0xF3, None)):
            b.st = st
            out, pre_state, specs = instruction_lemma(ctx, eng, ce, b, op, cb)
            tag = "step-instance-%d:%s" % (who + 1, opname(op, cb))
            for asp in ("regs", "flags", "mem", "frame", "flow"):
                items = out[asp]
                viol = z3.Or(*[v for v, _ in items]) if items else z3.BoolVal(False)
                ob = lem.add("lemma:%s:solo-behaviour:%s" % (tag, asp), viol, info={"replay": two_replay})
                if concrete_bool(viol) is False:
                    ob.trivial = True
            # ownership frame: nothing owned by the other instance changes, every bus access goes to the own mapper
            own_mapper = str(b.w.component("memory.Mapper").obj)
            for (s, n) in out["_finals"]:
                wrong = [e for e in bus_events(s.trace) if e[4] != own_mapper]
                ob = lem.add("lemma:%s:bus-goes-to-own-mapper" % tag, z3.And(s.pcond(), z3.BoolVal(bool(wrong))), info={"replay": two_replay})
                eng.obligs = []
                frame_obligations(eng, ce, pre_state, s.fork(), [], "", only_objs=set(bo.w.objname.keys()), names={k: "other." + v for k, v in bo.w.objname.items()})
                viol = z3.Or(*[o.viol for o in eng.obligs]) if eng.obligs else z3.BoolVal(False)
                ob = lem.add("lemma:%s:other-instance-unchanged" % tag, viol, info={"replay": two_replay,
                             "detail": [o.name for o in eng.obligs][:10]})
                if not eng.obligs:
                    ob.trivial = True
    lem.stats = dict(eng.stats)
    return lem


TWO_GO = r'''package cpu

import (
	"encoding/json"
	"os"
	"testing"

	"github.com/scottyw/tetromino/gameboy/audio"
	"github.com/scottyw/tetromino/gameboy/controller"
	"github.com/scottyw/tetromino/gameboy/interrupts"
	"github.com/scottyw/tetromino/gameboy/memory"
	"github.com/scottyw/tetromino/gameboy/oam"
	"github.com/scottyw/tetromino/gameboy/ppu"
	"github.com/scottyw/tetromino/gameboy/serial"
	"github.com/scottyw/tetromino/gameboy/timer"
)

func vrMachine() (*CPU, *memory.Mapper) {
	rom := make([]byte, 0x8000)
	i := interrupts.New()
	o := oam.New()
	p := ppu.New(i, o, false)
	p.WriteLCDC(0x00)
	m := memory.New(rom, i, o, p, controller.New(), serial.New(nil), timer.New(), audio.New(nil, nil))
	c := New(i, o, false, m)
	c.Initialize()
	i.Disable()
	return c, m
}

func TestVerifReplay(t *testing.T) {
	c1, m1 := vrMachine()
	c2, m2 := vrMachine()
	// INC B at C000 in machine 1, NOP in machine 2
	m1.Write(0xc000, 0x04)
	m2.Write(0xc000, 0x00)
	c1.pc, c2.pc = 0xc000, 0xc000
	c1.b, c2.b = 0x10, 0x20
	c1.ExecuteMachineCycle()
	out := map[string]interface{}{"c1.b": c1.b, "c2.b": c2.b, "c1.pc": c1.pc, "c2.pc": c2.pc}
	b, _ := json.Marshal(out)
	os.WriteFile(os.Getenv("VERIF_REPLAY_OUT"), b, 0644)
}
'''


def two_replay(ctx, prop, ob, res):
    """concrete two-machine run on the real code: stepping machine 1 (INC B) must change machine 1 only"""
    from engine.replay import run_go_test
    rc, log, out = run_go_test(ctx, "github.com/scottyw/tetromino/gameboy/cpu", TWO_GO)
    rep = {"go_rc": rc, "function": "two machines built with the real constructors; (*cpu.CPU).ExecuteMachineCycle on the first",
           "inputs": {"c1.b": 0x10, "c2.b": 0x20, "c1 program": "INC B", "c2 program": "NOP"}}
    if out is None:
        rep.update(status="error", log=log)
        return rep
    rep["real"] = out
    if out["c1.b"] == 0x11 and out["c2.b"] == 0x20 and out["c1.pc"] == 0xc001 and out["c2.pc"] == 0xc000:
        rep.update(status="unconfirmed", reason="the fixed two-machine scenario behaves independently; the model may need another opcode")
    else:
        rep.update(status="confirmed", reason="stepping the first machine changed the second or did not change the first")
    return rep


def boundary_replay(ctx, prop, ob, res):
    return {"status": "unconfirmed", "reason": "boundary-independence lemma: the first machine cycle of this opcode depends on per-instruction "
            "state left over by the previous instruction (currentSubinstructions / currentCycle / currentIsFinishedEarly); no single-instruction replay"}


# ------------------------------------------------------------------ ALU / flag helpers against the ISA specification (C01)
def helper_lemmas(ctx, eng, ce):
    """each ALU / rotate / flag helper of package cpu, executed on its own from an arbitrary register state, against the
    corresponding function of spec/sm83.py; everything it must not touch is proved unchanged"""
    lem = Lem()
    b = make_base(ctx, eng, ce)
    p = ctx.prog
    eng.modular = set()
    regs = REGS8 + ["sp", "pc"]

    def run(fn, args, st):
        eng.terminals, eng.obligs = [], []
        return eng.call_function(st, p.func(fn).name, args)

    def frame(s, pre, changed):
        return [fld(eng, s, b, r) != fld(eng, pre, b, r) for r in regs if r not in changed]

    def regptr(name):
        return Ptr(b.cpu.obj, tuple(i for i, _ in p.field_index(b.tid, name)))
    u8 = z3.BitVec("u8", 8)
    u16 = z3.BitVec("u16", 16)
    base = b.st.fork()
    base.pc.append((fld(eng, base, b, "f") & 0x0f) == 0)
    A, F = fld(eng, base, b, "a"), fld(eng, base, b, "f")
    lem.covers.append(("lemma:helpers#cover", base.pcond()))
    # 8-bit ALU on A
    for kind, nm in enumerate(["add", "adc", "sub", "sbc", "and", "xor", "or", "cp"]):
        viol = []
        for (s, _) in run(CPU + nm, [b.cpu, u8], base.fork()):
            ra, rf = sm83.alu(kind, A, u8, F)
            viol.append(z3.And(s.pcond(), z3.Or(fld(eng, s, b, "a") != ra, fld(eng, s, b, "f") != rf, *frame(s, base, ("a", "f")))))
        lem.add("lemma:helper:%s-matches-the-alu-specification" % nm, z3.Or(*viol) if viol else z3.BoolVal(True))
    # INC/DEC and the CB rotates/shifts on every 8-bit target they are used with
    targets = ["a", "b", "c", "d", "e", "h", "l", "m8a"]
    for nm in ["inc", "dec", "rlc", "rrc", "rl", "rr", "sla", "sra", "swap", "srl"]:
        viol = []
        for tg in targets:
            v0 = fld(eng, base, b, tg)
            for (s, _) in run(CPU + nm, [b.cpu, regptr(tg)], base.fork()):
                if nm == "inc":
                    r = v0 + 1
                    rf = sm83.flags(r == 0, False, (v0 & 0xf) == 0xf, None, old=F)
                elif nm == "dec":
                    r = v0 - 1
                    rf = sm83.flags(r == 0, True, (v0 & 0xf) == 0, None, old=F)
                else:
                    r, rf = sm83.rot(["rlc", "rrc", "rl", "rr", "sla", "sra", "swap", "srl"].index(nm), v0, F)
                viol.append(z3.And(s.pcond(), z3.Or(fld(eng, s, b, tg) != r, fld(eng, s, b, "f") != rf, *frame(s, base, (tg, "f")))))
        lem.add("lemma:helper:%s-matches-the-specification-on-every-register" % nm, z3.Or(*viol) if viol else z3.BoolVal(True))
    # accumulator rotates (Z cleared), DAA, CPL, SCF, CCF
    for y, nm in enumerate(["rlca", "rrca", "rla", "rra"]):
        viol = []
        for (s, _) in run(CPU + nm, [b.cpu], base.fork()):
            r, rf = sm83.rot(y, A, F)
            viol.append(z3.And(s.pcond(), z3.Or(fld(eng, s, b, "a") != r, fld(eng, s, b, "f") != (rf & 0x7f), *frame(s, base, ("a", "f")))))
        lem.add("lemma:helper:%s-matches-the-specification" % nm, z3.Or(*viol) if viol else z3.BoolVal(True))
    misc = {"daa": lambda: sm83.daa(A, F), "cpl": lambda: (~A, sm83.flags(None, True, True, None, old=F)),
            "scf": lambda: (A, sm83.flags(None, False, False, True, old=F)), "ccf": lambda: (A, sm83.flags(None, False, False, z3.Not(sm83.cf(F)), old=F))}
    for nm, want in misc.items():
        viol = []
        for (s, _) in run(CPU + nm, [b.cpu], base.fork()):
            ra, rf = want()
            viol.append(z3.And(s.pcond(), z3.Or(fld(eng, s, b, "a") != ra, fld(eng, s, b, "f") != rf, *frame(s, base, ("a", "f")))))
        lem.add("lemma:helper:%s-matches-the-specification" % nm, z3.Or(*viol) if viol else z3.BoolVal(True))
    # 16-bit: ADD HL,rr ; ADD SP,e ; LD HL,SP+e
    H, L, SP = fld(eng, base, b, "h"), fld(eng, base, b, "l"), fld(eng, base, b, "sp")
    hl = z3.Concat(H, L)
    viol = []
    for (s, _) in run(CPU + "addHL", [b.cpu, u16], base.fork()):
        r = hl + u16
        rf = sm83.flags(None, False, z3.UGT(sm83.zx(hl & 0xfff, 17) + sm83.zx(u16 & 0xfff, 17), 0xfff), z3.UGT(sm83.zx(hl, 17) + sm83.zx(u16, 17), 0xffff), old=F)
        viol.append(z3.And(s.pcond(), z3.Or(fld(eng, s, b, "h") != sm83.hi(r), fld(eng, s, b, "l") != sm83.lo(r), fld(eng, s, b, "f") != rf,
                                            *frame(s, base, ("h", "l", "f")))))
    lem.add("lemma:helper:addHL-matches-the-specification", z3.Or(*viol) if viol else z3.BoolVal(True))
    e = fld(eng, base, b, "u8a")
    e16 = z3.SignExt(8, e)
    hf = z3.UGT(sm83.zx(SP & 0xf, 17) + sm83.zx(sm83.zx(e, 16) & 0xf, 17), 0xf)
    cfl = z3.UGT(sm83.zx(SP & 0xff, 17) + sm83.zx(e, 17), 0xff)
    fl = sm83.flags(False, False, hf, cfl)
    viol = []
    for (s, _) in run(CPU + "addSP", [b.cpu], base.fork()):
        viol.append(z3.And(s.pcond(), z3.Or(fld(eng, s, b, "sp") != SP + e16, fld(eng, s, b, "f") != fl, *frame(s, base, ("sp", "f")))))
    lem.add("lemma:helper:addSP-matches-the-specification", z3.Or(*viol) if viol else z3.BoolVal(True))
    viol = []
    for (s, _) in run(CPU + "ldHLSP", [b.cpu], base.fork()):
        r = SP + e16
        viol.append(z3.And(s.pcond(), z3.Or(fld(eng, s, b, "h") != sm83.hi(r), fld(eng, s, b, "l") != sm83.lo(r), fld(eng, s, b, "f") != fl,
                                            *frame(s, base, ("h", "l", "f")))))
    lem.add("lemma:helper:ldHLSP-matches-the-specification", z3.Or(*viol) if viol else z3.BoolVal(True))
    # flag predicates and carry calculators
    x8, y8 = z3.BitVec("x8", 8), z3.BitVec("y8", 8)
    x16, y16 = z3.BitVec("x16", 16), z3.BitVec("y16", 16)
    pure = {"cpu.hc8": ([x8, y8], z3.UGT(sm83.zx(x8 & 0xf, 9) + sm83.zx(y8 & 0xf, 9), 0xf)), "cpu.c8": ([x8, y8], z3.UGT(sm83.zx(x8, 9) + sm83.zx(y8, 9), 0xff)),
            "cpu.hc16": ([x16, y16], z3.UGT(sm83.zx(x16 & 0xfff, 17) + sm83.zx(y16 & 0xfff, 17), 0xfff)),
            "cpu.c16": ([x16, y16], z3.UGT(sm83.zx(x16, 17) + sm83.zx(y16, 17), 0xffff)),
            "cpu.hc8Sub": ([x8, y8], z3.ULT(x8 & 0xf, y8 & 0xf)), "cpu.c8Sub": ([x8, y8], z3.ULT(x8, y8))}
    for fn, (args, want) in pure.items():
        viol = []
        for (s, r) in run(fn, args, base.fork()):
            viol.append(z3.And(s.pcond(), z3.Or(r != want, *frame(s, base, ()))))
        lem.add("lemma:helper:%s-is-the-documented-carry" % fn.split(".")[1], z3.Or(*viol) if viol else z3.BoolVal(True))
    for nm, bit in (("zf", 0x80), ("nf", 0x40), ("hf", 0x20), ("cf", 0x10)):
        viol = []
        for (s, r) in run(CPU + nm, [b.cpu], base.fork()):
            viol.append(z3.And(s.pcond(), r != ((F & bit) != 0)))
        lem.add("lemma:helper:%s-reads-its-flag-bit" % nm, z3.Or(*viol) if viol else z3.BoolVal(True))
        vb = z3.Bool("flagvalue")
        viol = []
        for (s, _) in run(CPU + "set" + nm[0].upper() + nm[1:], [b.cpu, vb], base.fork()):
            viol.append(z3.And(s.pcond(), z3.Or(fld(eng, s, b, "f") != z3.If(vb, F | bit, F & ~bit & 0xff), *frame(s, base, ("f",)))))
        lem.add("lemma:helper:set%s-writes-only-its-flag-bit" % (nm[0].upper() + nm[1:]), z3.Or(*viol) if viol else z3.BoolVal(True))
    lem.stats = dict(eng.stats)
    return lem
