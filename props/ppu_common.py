"""shared task builders for packages ppu and oam (C13, C14, C15, C16, C17)"""
import z3
from engine.driver import Task, LemmaTask, Lem
from engine.core import Closure, Ptr, ZArr, BV64, concrete_bool
from props.common import scan_lemma
from props.mem_common import keep_labels

P = "(*ppu.PPU)."
O = "(*oam.OAM)."


def ppu_task(fn, labels, **kw):
    return Task(P + fn, P + fn, keep=keep_labels(set(labels)), **kw)


def ext_read_handler(eng, st, args, site):
    """the `read` parameter of TickDMA: an arbitrary bus; every call is a ghost event (address, returned byte)"""
    addr = args[0]
    src = st.ghost.get("dma_src")
    if src is not None:
        v = z3.Select(src, z3.ZeroExt(48, addr - st.ghost["dma_base"]))
    else:
        v = z3.BitVec(eng.fresh_name("busbyte"), 8)
    st.trace = st.trace + (("dmaread", addr, v),)
    return [(st, v)]


def tickdma_args(w, st):
    m = w.component("oam.OAM")
    return [m, Closure("ext:read", ())]


def callers_of(prog, callee_short_prefix):
    from engine.prog import short
    out = {}
    for f in prog.funcs.values():
        for b in f.blocks:
            for ins in b["instrs"]:
                if ins["op"] in ("Call", "Defer", "Go"):
                    sc = ins["call"].get("static")
                    if sc and short(sc).startswith(callee_short_prefix):
                        out.setdefault(short(sc), set()).add(f.short)
    return out


def dma_induction(ctx, eng, ce):
    """C16: inductive invariant of the transfer over the real TickDMA.
    I(k): running, dmaCycle == k <= 161, forall i < k-2: oam[i] == src[i], and k >= 2 ==> dmaRead == src[k-2]
    where src[i] is the byte the bus returned for address base+i (ghost array)."""
    from engine.verify import World
    from engine.core import State
    lem = Lem()
    st = State()
    ctx.seed_globals(st)
    w = World(eng, st)
    m = w.component("oam.OAM")
    tid = ctx.prog.named["oam.OAM"]

    def f(s, name):
        path = ctx.prog.field_index(tid, name)
        return eng.load(s, Ptr(m.obj, tuple(i for i, _ in path)))
    src = z3.Array("dma_src", BV64, z3.BitVecSort(8))
    k = z3.ZeroExt(48, f(st, "dmaCycle"))
    oam0 = f(st, "oam").term
    i = z3.BitVec("i", 64)

    def inv(oam, kk, dmaread):
        return z3.And(z3.ForAll([i], z3.Implies(z3.And(i >= 0, i < kk - 2), z3.Select(oam, i) == z3.Select(src, i))),
                      z3.Implies(kk >= 2, dmaread == z3.Select(src, kk - 2)))
    st.pc.append(f(st, "dmaRunning"))
    st.pc.append(z3.And(k >= 0, k <= 161))
    st.pc.append(inv(oam0, k, f(st, "dmaRead")))
    st.ghost["dma_src"] = src
    st.ghost["dma_base"] = f(st, "dmaBaseAddr")
    pre = st.fork()
    lem.covers.append(("lemma:dma#cover:invariant", pre.pcond()))
    eng.ev = ce
    eng.modular = set()
    eng.terminals, eng.obligs = [], []
    fn = ctx.prog.func(O + "TickDMA").name
    outs = eng.call_function(st, fn, [m, Closure("ext:read", ())])
    step, done, frame = [], [], []
    j = z3.BitVec("j", 64)
    for (s, _) in outs:
        k1 = z3.ZeroExt(48, f(s, "dmaCycle"))
        oam1 = f(s, "oam").term
        g = s.pcond()
        # not the last call: invariant for k+1, still running
        step.append(z3.And(g, k < 161, z3.Not(z3.And(f(s, "dmaRunning"), k1 == k + 1, inv(oam1, k1, f(s, "dmaRead"))))))
        # the 162nd call (k == 161): transfer complete, all 160 bytes equal the source bytes
        done.append(z3.And(g, k == 161, z3.Not(z3.And(z3.Not(f(s, "dmaRunning")),
                                                   z3.ForAll([j], z3.Implies(z3.And(j >= 0, j < 160), z3.Select(oam1, j) == z3.Select(src, j)))))))
        frame.append(z3.And(g, f(s, "dmaBaseAddr") != f(pre, "dmaBaseAddr")))
    lem.add("lemma:dma:invariant-preserved", z3.Or(*step) if step else z3.BoolVal(True))
    lem.add("lemma:dma:complete-after-162-ticks", z3.Or(*done) if done else z3.BoolVal(True))
    lem.add("lemma:dma:base-unchanged", z3.Or(*frame) if frame else z3.BoolVal(True))
    for ob in eng.obligs:
        lem.add("lemma:dma:" + ob.name, ob.viol)
    for t in eng.terminals:
        lem.add("lemma:dma:no-panic", t.state.pcond())
    # base case: a (re)start establishes I(0)
    st2 = pre.fork()
    st2.pc = []
    outs2 = eng.call_function(st2, ctx.prog.func(O + "WriteDMA").name, [m, z3.BitVec("xx", 8)])
    base = []
    for (s, _) in outs2:
        base.append(z3.And(s.pcond(), z3.Not(z3.And(f(s, "dmaRunning"), f(s, "dmaCycle") == 0))))
    lem.add("lemma:dma:start-establishes-invariant", z3.Or(*base) if base else z3.BoolVal(True))
    lem.add("canary:dma-copies-nothing", z3.Or(*[z3.And(s.pcond(), k >= 2, k <= 160, f(s, "oam").term != oam0) for (s, _) in outs]) if outs else z3.BoolVal(False),
            info={"canary": True})
    lem.stats = dict(eng.stats)
    return lem
