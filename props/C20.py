"""C20 - the audio sample stream is paced, routed and bounded."""
from engine.driver import run_property, Task, LemmaTask
from props.common import filter_tasks, TRUSTED, BASE_ASSUME, scan_lemma
from props.mem_common import keep_labels
import props.audio_common as ac
import props.wiring as wr

MANIFEST = {
    "level": "proof",
    "text": "Pacing: tickClock (one call per clock cycle, four per machine cycle) is proved to advance the clock counter by exactly one and to send exactly one left and one right sample iff sound is on, both outputs are attached and the counter is a multiple of 95 - for every counter value below 2^62, so also across emulated-second boundaries; a ranking-function lemma over that contract gives exactly one stereo sample per 95 clock cycles; nothing is sent when sound is off or an output is missing. Bounded: in the SMT floating-point theory (float32, round-to-nearest-even, Go's evaluation order) both samples produced by the real takeSample code are proved finite and in [0,1) under the representation invariant apuOK (volume <= 15, duty index < 8, sample buffer <= 15, master volume <= 7, ...), which tickClock and tickFrameSequencer are proved to preserve. Routed: the sample of a side is proved to be +0 when no enabled channel is routed to it, and to be identical (relational obligation over two states that differ in every field of one channel) whenever that channel's NR51 bit for the side is clear. apuOK and the clock invariant are proved established by gameboy.New/audio.New (power-on lemma on the real constructor) and preserved by every exported method of *Audio (register handlers and EndMachineCycle), for every argument. The sample clock is written by tickClock alone (SSA scan) and WriteNR52 is proved to leave it unchanged.",
    "note": "Assumed: a channel send is recorded as a ghost event (the speakers goroutine is the environment; blocking is not modelled); amd64 float32 arithmetic without fused multiply-add. The wiring 'DisableAudioOutput => audio.New(nil, nil)' in gameboy.New is checked by an SSA scan. apuOK is established by audio.New (checked) and preserved by the register handlers (their masks).",
    "technique": "function contracts with a ghost sample trace, floating-point SMT obligations, relational (two-state) routing lemma, ranking-function lemma; z3",
    "design_ref": "DESIGN.md section 4 C20",
}
KEEP = keep_labels({"ticks", "sample", "ok", "silent", "pair", "ch1", "ch2", "ch3", "ch4", "sequencer", "len2", "len3"})


def apu_clock_writers(ctx):
    from props.common import field_writers, not_confined
    ws = field_writers(ctx.prog, "audio.Audio", "ticks")
    bad = not_confined(ctx.prog, ws, {"(*audio.Audio).tickClock", "audio.New"})
    return not bad, "writers of Audio.ticks other than tickClock / New: %s" % bad


def tasks(ctx):
    both = dict(ac.OV, **{"Audio.l": ac.chan_ov("left"), "Audio.r": ac.chan_ov("right")})
    onlyl = dict(ac.OV, **{"Audio.l": ac.chan_ov("left")})
    ts = [Task(ac.A + "tickClock[outputs]", ac.A + "tickClock", variant="outputs", overrides=both, keep=KEEP),
          Task(ac.A + "tickClock[no-outputs]", ac.A + "tickClock", variant="no-outputs", overrides=ac.OV, keep=KEEP),
          Task(ac.A + "tickClock[left-only]", ac.A + "tickClock", variant="left-only", overrides=onlyl, keep=KEEP),
          Task(ac.A + "tickTimer", ac.A + "tickTimer", overrides=ac.OV, keep=KEEP),
          Task(ac.A + "takeSample[outputs]", ac.A + "takeSample", variant="outputs", overrides=both, keep=KEEP),
          Task(ac.A + "takeSample[no-outputs]", ac.A + "takeSample", variant="no-outputs", overrides=ac.OV, keep=KEEP),
          LemmaTask("lemma:mix", ac.mix_lemmas, [ac.A + "takeSample", "(*audio.square).takeSample", "(*audio.wave).takeSample", "(*audio.noise).takeSample"]),
          LemmaTask("lemma:pacing", ac.pacing_lemma, ["tickClock (contract-level lemma)"]),
          # the sample clock is advanced by tickClock alone: no register write rewinds it
          Task(ac.A + "WriteNR52", ac.A + "WriteNR52", overrides=ac.OV, keep=keep_labels({"clock"}, kinds=("requires",))),
          scan_lemma("scan:apu-clock-written-only-by-tickClock", apu_clock_writers, ["package audio (SSA scan)"])]
    # the invariant the bound rests on: established at power-on, preserved by every entry point of the APU
    ts.extend(ac.invariant_task(fn) for fn in ac.exported_audio_methods(ctx))
    ts.append(LemmaTask("lemma:power-on", lambda c, e, ce: wr.power_on(c, e, ce, wiring=False, only=("apuOK(m.audio)", "m.audio.ticks >= 1 && m.audio.frameSeqTicks < 512")),
                        ["gameboy.New", "audio.New"]))
    names = {t.name for t in ts}
    ts += [t for t in ac.register_semantics_tasks(ctx) if t.name not in names]
    return filter_tasks(ts)


# components whose representation invariants the lemmas above assume in every reachable state (engine/closure.py adds
# the preservation obligations of all their functions)
tasks.invariant_packages = ('audio',)


def run(tier, seed):
    return run_property("C20", tasks, "proof", tier, seed, BASE_ASSUME + [
        "channel sends are ghost output events; the consumer (speakers) is the environment", "float32 = IEEE binary32, RNE, no FMA (amd64)",
        "emulated time below 2^62 clock cycles (the uint64 clock counter does not wrap)"], TRUSTED)
