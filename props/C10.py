"""C10 - the MBC3 real-time clock keeps time and latches correctly."""
import z3
from engine.driver import run_property, Task, LemmaTask, Lem
from props.common import filter_tasks, TRUSTED, BASE_ASSUME

MANIFEST = {
    "level": "proof",
    "text": "rtc.increment is proved equal to the documented carry chain (60/60/24, 9-bit day counter, day-carry set on wrap past 511, out-of-range register values wrap in their bit width without carrying) for all counter states; rtc.tick is proved to be an exact modulo-1,048,576 counter that performs the increment exactly when it wraps and does nothing while halted; a ranking-function lemma over that contract gives exactly one second per 1,048,576 calls; latchLow/latchHigh implement the 0-then-1 latch, read returns the latched copies masked to 6/6/5/8 bits and control bits 0/6/7, write sets the live counters and a seconds write clears the sub-second count; mbc3.Write routes 6000-7FFF and A000-BFFF (clock register selected) to them and Mapper.EndMachineCycle calls tick exactly once. The representation invariant rtcOK (registers within their widths, 0 <= ticks < 2^20) is established by newRTC and preserved by every operation.",
    "note": "Trusted: go/ssa, engine SSA semantics, z3. 'Emulated machine cycle' = one call of Mapper.EndMachineCycle (C26 proves the frame loop makes exactly one per cycle). The latch accepts any write with bit 0 clear as '0' and bit 0 set as '1' (a superset of the documented 0x00/0x01).",
    "technique": "function contracts + representation invariant on the real go/ssa; period lemma over the tick contract; z3",
    "design_ref": "DESIGN.md section 4 C10",
}
R = "(*memory.rtc)."
FUNCS = ["memory.newRTC", R + "increment", R + "tick", R + "latchLow", R + "latchHigh", R + "read", R + "write"]


def period_lemma(ctx, eng, ce):
    """over the contract of tick: from any in-range sub-second count t the next increment happens after exactly
    M - t calls and then every M calls (ranking function M-1-t)."""
    lem = Lem()
    M = 1048576
    t = z3.BitVec("t", 64)
    inr = z3.And(t >= 0, t < M)
    nxt = z3.If(t == M - 1, z3.BitVecVal(0, 64), t + 1)
    fires = t == M - 1
    rank = (M - 1) - t
    rank2 = (M - 1) - nxt
    lem.add("lemma:tick-rank-decreases", z3.And(inr, z3.Not(fires), z3.Not(z3.And(rank2 == rank - 1, rank2 >= 0))))
    lem.add("lemma:tick-fires-iff-rank-zero", z3.And(inr, fires != (rank == 0)))
    lem.add("lemma:tick-rank-reset", z3.And(inr, fires, rank2 != M - 1))
    lem.covers.append(("lemma:tick#cover", inr))
    lem.fn = None
    return lem


def tasks(ctx):
    ts = [Task(f, f) for f in FUNCS]
    ts.append(LemmaTask("lemma:period", period_lemma, ["(*memory.rtc).tick (contract-level lemma)"]))
    import props.mem_common as mc
    ts.extend(mc.c10_tasks(ctx))
    # the bus's per-cycle step performs exactly one DMA step and one clock tick, whatever the other is doing
    import props.mapper_common as mcx
    from engine import vsl as _vsl
    from props.mem_common import keep_labels as _kl

    def _valid3(w, st, args):
        ce = w.e.ev
        env = {"m": _vsl.TV(args[0], ce.ev.ty_of(mcx.ptr_tid(w.p, "memory.Mapper")))}
        return ce.ev.as_bool(ce.ev.eval(_vsl.parse("valid3(m.mbc)"), env, st, st))
    ts.append(Task(mcx.M + "EndMachineCycle[mbc3]", mcx.M + "EndMachineCycle", variant="mbc3",
                   overrides={"Audio.ch2.sweep": mcx.nil_value, "Mapper.mbc": mcx.mbc_override("mbc3")}, extra_requires=[_valid3],
                   keep=_kl({"rtc", "dma", "ok"})))
    return filter_tasks(ts)


# components whose representation invariants the lemmas above assume in every reachable state (engine/closure.py adds
# the preservation obligations of all their functions)
tasks.invariant_packages = ('memory',)


def run(tier, seed):
    return run_property("C10", tasks, "proof", tier, seed, BASE_ASSUME, TRUSTED)
