"""C08 - cartridge ROM banking follows each controller's register semantics."""
from engine.driver import run_property, Task, LemmaTask
import props.wiring as wr
from props.common import filter_tasks, TRUSTED, BASE_ASSUME
import props.mem_common as mc

MANIFEST = {
    "level": "proof",
    "text": "For each controller (none, MBC1, MBC2, MBC3, MBC5) Read and Write are verified against contracts written from the documented register semantics with the number of ROM banks N symbolic (every power of two 2..512, i.e. every declared ROM size at once): Write updates exactly the documented bank registers (MBC1 5+2 bits with 0->1 and mode, MBC2 4 bits via A8 with 0->1, MBC3 7 bits with 0->1, MBC5 9 bits with 0 allowed), reads of 0000-3FFF / 4000-7FFF return the byte of ROM bank (registers mod N), the representation invariant validN (bank fields in range and equal to the documented function of the registers) is preserved by every write, and the assigns clauses never contain a ROM byte (ROM immutability as a frame condition). By induction over validN this covers every sequence of control writes. prepareROM is verified against its contract: the number of 16 KiB pages equals 2<<code for the header ROM size code, and page p holds the image bytes p*0x4000.. in order (loop invariant), linking 'bank' to the bytes of the image. Constructors: each of newMBC1/2/3/5 is proved to return its controller in the documented power-on state (ROM bank register 1, upper bits/RAM bank 0, simple mode, RAM disabled) satisfying validN and holding the page slices it was given; newMBC (page builders abstracted) is proved to pick the controller kind that the header type byte documents.",
    "note": "Trusted: go/ssa, engine SSA semantics (z3 arrays for ROM/RAM pages), z3/cvc5. validN is established by newMBC for every image it accepts (C11 proves that). The interface dispatch Mapper.Read/Write -> mbc is C06's decoder obligation.",
    "technique": "function contracts against spec functions + representation invariant + frame conditions on the real go/ssa; z3",
    "design_ref": "DESIGN.md section 4 C08",
}
LABELS = {"rom", "lo", "hi", "bank1", "bank2", "mode", "romb", "romlo", "romhi", "regskeep", "valid", "ramkeep", "ramrange", "ram"}


def tasks(ctx):
    return filter_tasks(mc.mbc_rw_tasks(ctx, keep=mc.keep_labels(LABELS | {"open"})) + mc.prepare_tasks(ctx, ("memory.prepareROM",)) + mc.constructor_tasks(ctx) +
                        [LemmaTask("lemma:controller", lambda c, e, ce: wr.controller_lemma(c, e, ce, two=False), ["memory.newMBC"])])


# components whose representation invariants the lemmas above assume in every reachable state (engine/closure.py adds
# the preservation obligations of all their functions)
tasks.invariant_packages = ('memory',)


def run(tier, seed):
    return run_property("C08", tasks, "proof", tier, seed, BASE_ASSUME, TRUSTED)
