"""C01 - every SM83 instruction has its documented effect on registers, flags and memory."""
from engine.driver import run_property, Task
from props.common import filter_tasks, TRUSTED, BASE_ASSUME
import props.cpu_common as cc

MANIFEST = {
    "level": "proof",
    "text": "One lemma per opcode (245 defined base opcodes + 256 CB opcodes; the 11 undefined ones are proved to reach only the deliberate exit): from any state at an instruction boundary (every register, flag, SP, PC, interrupt register value; every fetched operand and loaded data byte a fresh symbol) the real ExecuteMachineCycle is executed symbolically - resolving the dispatch tables computed by the real Initialize - until the real isFinished() holds again, and the final A,B,C,D,E,H,L,F,SP,PC, the sequence of bus writes (address and value terms), IME/IF/IE and the halted/stopped/haltbug flags are proved equal to the decode-structured specification spec/sm83.py (written from documentation), with F&0x0F == 0 afterwards (POP AF included). Memory is a bus trace (Mapper.Read returns a fresh byte, Mapper.Write is an event), so the lemma holds for any hardware behind the bus. Exhaustive over all operand values by construction (including all 2^32 ADD HL,rr pairs).",
    "note": "Trusted: go/ssa, engine SSA semantics, z3, and spec/sm83.py as the oracle (cross-checked against daa.csv and the repository's metadata table in the thorough tier). Hypotheses of each lemma: instruction boundary as left by cpu.New or a finished instruction, no interrupt dispatch pending (C04), not halted/stopped, haltbug clear (C05), debugCPU off, F&0x0F==0 (proved invariant). The OAM-bug trigger calls are abstracted (C17). EI's IME timing is C04's obligation.",
    "technique": "per-opcode lemmas over the real go/ssa (strongest postcondition of ExecuteMachineCycle with contracts for package interrupts) against an ISA specification; z3",
    "design_ref": "DESIGN.md section 4 C01",
}
ASSUME = BASE_ASSUME + ["spec/sm83.py is the oracle (documentation-derived)", "bus abstracted as a trace: Mapper.Read returns an unconstrained byte per access"]


HELPERS = ["add", "adc", "sub", "sbc", "and", "xor", "or", "cp", "inc", "dec", "rlc", "rrc", "rl", "rr", "sla", "sra", "swap", "srl", "rlca", "rrca", "rla",
           "rra", "daa", "cpl", "scf", "ccf", "addHL", "addSP", "ldHLSP", "zf", "nf", "hf", "cf", "setZf", "setNf", "setHf", "setCf"]


def tasks(ctx):
    from engine.driver import LemmaTask
    ts = [cc.opcode_task("C01", ch, i) for i, ch in enumerate(cc.opcode_chunks(32))]
    ts.append(LemmaTask("lemma:helpers", cc.helper_lemmas, ["(*cpu.CPU)." + h for h in HELPERS] + ["cpu.hc8", "cpu.c8", "cpu.hc16", "cpu.c16", "cpu.hc8Sub", "cpu.c8Sub"]))
    return filter_tasks(ts)


def run(tier, seed):
    return run_property("C01", tasks, "proof", tier, seed, ASSUME, TRUSTED)
