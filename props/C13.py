"""C13 - LCD line and mode timing follow the frame schedule."""
from engine.driver import run_property, Task
from props.common import filter_tasks, TRUSTED, BASE_ASSUME
import props.ppu_common as pc

MANIFEST = {
    "level": "proof",
    "text": "One-step refinement of the statement's line/mode counter plus an inductive invariant: with q the frame position a call of ppu.EndMachineCycle processes (q = ticks at entry, line q/114, cycle q%114), the call is proved to leave LY = q/114, STAT mode = M(q) (2 for cycles 0-19, 3 for 20-60, 0 from 61, 1 on lines 144-153) and ticks = next(q) (q+1 modulo 17556; the call that enters mode 0 on the first line after switch-on skips two positions, making that line 112 cycles), for every q in 0..17555 and every register state satisfying the invariant ppuInv; ppuInv is established by ppu.New and by enable/disable/WriteLCDC and preserved by EndMachineCycle; switching off yields LY 0 / mode 0 / position 0 in the same call, switching on yields line 0, mode 2; with the LCD off EndMachineCycle changes nothing. By induction this covers every on/off schedule of any length.",
    "note": "Trusted: go/ssa, engine semantics, z3. renderPixel and checkOverlappingSprites are used through their frame contracts (they assign no timing state; their functional contracts are C15's). debug mode (256x256 debug frame) is excluded by precondition.",
    "technique": "function contracts (one-step refinement + inductive representation invariant) on the real go/ssa; z3",
    "design_ref": "DESIGN.md section 4 C13",
}


def tasks(ctx):
    ts = [pc.ppu_task("EndMachineCycle", ["off", "ly", "mode", "ticks", "firstline", "inv"]),
          pc.ppu_task("enable", ["0", "inv"]), pc.ppu_task("disable", ["0", "inv"]),
          pc.ppu_task("WriteLCDC", ["on", "off", "same", "inv"]), pc.ppu_task("ReadLY", ["0"]), pc.ppu_task("ReadSTAT", ["0"]),
          pc.ppu_task("WriteLY", []), Task("ppu.New", "ppu.New")]
    return filter_tasks(ts)


# components whose representation invariants the lemmas above assume in every reachable state (engine/closure.py adds
# the preservation obligations of all their functions)
tasks.invariant_packages = ('ppu', 'oam')


def run(tier, seed):
    return run_property("C13", tasks, "proof", tier, seed, BASE_ASSUME, TRUSTED)
