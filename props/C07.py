"""C07 - a write changes only the state documented for its address."""
from engine.driver import run_property, Task, LemmaTask
from props.common import filter_tasks, TRUSTED, BASE_ASSUME
import props.mapper_common as mc

MANIFEST = {
    "level": "proof",
    "text": "For every write class A of the documented memory map (symbolic address a inside A, symbolic value) and a fully symbolic read address b over 0000-FFFF, the real Mapper.Write followed by the real Mapper.Read(b) is compared with Mapper.Read(b) on the pre-state: unless (A, b) is in the documented effect relation (own value and echo, cartridge control writes -> ROM/RAM windows, LCDC -> LY/STAT, DMA -> DMA register and the OAM window, NR52 -> all sound registers, sound register writes -> own register, NR52 status and - for channel 3 registers - wave RAM, wave RAM writes -> wave RAM) the two reads are proved equal, for every machine state satisfying the components' invariants. This covers all 65536 x 65536 address pairs and all values in ~70 solver queries per controller world; the handlers' own assigns clauses (frame conditions proved in C06/C08/C09/C12/C13/C17/C22) bound the non-readable state. Hidden state: for every address class the write is additionally proved to leave every object outside the owning component untouched (heap comparison; unmapped addresses change nothing at all; LCDC may also close the OAM-bug window), which covers write-only registers and counters the read-back relation cannot observe.",
    "note": "Trusted: go/ssa, engine semantics, z3. The effect relation (props/mapper_common.py related()) is the oracle, written from the statement's list. Run for the MBC1 world (all classes) and for the cartridge classes under every controller.",
    "technique": "relational frame lemma over the real decoder (write then read at a symbolic address vs read on the pre-state); z3",
    "design_ref": "DESIGN.md section 4 C07",
}


def tasks(ctx):
    ts = []
    for cls in mc.memory_map():
        ts.append(mc.effect_task("mbc1", cls))
        if cls[3] == "mbc":
            for kind in ("none", "mbc2", "mbc3", "mbc5"):
                ts.append(mc.effect_task(kind, cls))
    ts.extend(mc.invariant_tasks(ctx))
    # the documented effect of the sound control registers on NR52 is more than "may change": which way a channel's status bit
    # goes is fixed by the register semantics (trigger with DAC on and no sweep overflow switches on; DAC off, power off, sweep
    # overflow and length expiry switch off). Those clauses of the write handlers and of the trigger functions are obligations
    # here too (they are C19's contracts)
    import props.C19 as c19
    import props.audio_common as ac
    from engine.driver import Task
    ts += [Task(ac.A + f, ac.A + f, overrides=ac.OV, keep=c19.KEEP) for f in c19.AU if f.startswith("Write")]
    ts += [Task(f, f, keep=c19.KEEP) for f in c19.FU if f.endswith(".trigger")]
    ts.append(Task("(*audio.square).trigger[ch1]", "(*audio.square).trigger", variant="with-sweep", keep=c19.KEEP))
    ts.append(Task("(*audio.square).trigger[ch2]", "(*audio.square).trigger", variant="no-sweep", overrides={"s.sweep": ac.nil_value}, keep=c19.KEEP))
    return filter_tasks(ts)


def run(tier, seed):
    return run_property("C07", tasks, "proof", tier, seed, BASE_ASSUME + ["the documented effect relation (props/mapper_common.py related) is the oracle"], TRUSTED)
