"""C25 - emulator instances in one process are independent."""
import z3
from engine.driver import run_property, Task, LemmaTask, Lem
from props.common import filter_tasks, TRUSTED, BASE_ASSUME, scan_lemma
import props.cpu_common as cc
import props.wiring as wr

MANIFEST = {
    "level": "proof",
    "text": "Ownership frame with two symbolic emulator instances (two distinct CPU objects, each with its own Interrupts, OAM and Mapper, both initialised by the real Initialize): stepping either instance through a representative set of opcodes (register ALU, PUSH, immediate load, CB rotate, DI) is proved (a) to have exactly the solo behaviour required by the ISA specification, (b) to send every bus access to its own Mapper and (c) to leave every heap location owned by the other instance unchanged (frame obligation over all objects of the other instance). Together with a scan of the exported SSA proving that no package-level variable of any package in scope is written outside package initialisation (so there is no shared mutable state to interfere through), every component method can only touch the objects reachable from its own receiver. Power-on: the real gameboy.New is executed twice in one symbolic heap, for every pair of Configs: the two machines share no object, neither references a package-level object, and inside each machine every component reference (cpu->mapper/interrupts/oam, ppu->interrupts/oam, mapper->all) points to that machine's own single instance. newMBC is executed twice in one heap for every pair of headers: the two controllers share no object and reference no package-level object.",
    "note": "Concurrency is outside this technique (no thread model): with no shared mutable package state and disjoint heap footprints, independence under interleaving and under the race detector follows from the frame rule; that step is an assumption, not an obligation. The display/speakers packages (cgo) are excluded.",
    "technique": "two-object frame lemma over the real go/ssa + SSA scan for writes to package-level variables; z3 + symbolic execution of the real gameboy.New (object-graph disjointness)",
    "design_ref": "DESIGN.md section 4 C25",
}
ASSUME = BASE_ASSUME + ["sequential composition only: concurrent runs are covered by the frame rule under the assumption that Go code without shared mutable state is data-race free",
                        "display and speakers (cgo, stubbed) are not analysed"]


def globals_scan(ctx):
    mut = {k: sorted(v)[:4] for k, v in ctx.mutable.items() if not k.endswith("init$guard")}
    return (not mut), "package-level variables written outside package initialisation: %s" % (mut or "none")


def tasks(ctx):
    ts = [LemmaTask("lemma:two-instances", cc.two_instance_lemma, ["(*cpu.CPU).Initialize", "(*cpu.CPU).ExecuteMachineCycle"]),
          scan_lemma("scan:no-package-variable-written-after-init", globals_scan, ["all packages (SSA scan)"]),
          LemmaTask("lemma:power-on", lambda c, e, ce: wr.power_on(c, e, ce, invariants=False, two=True), ["gameboy.New", "memory.New", "cpu.New", "ppu.New", "audio.New", "(*cpu.CPU).Initialize"]),
          LemmaTask("lemma:controller", wr.controller_lemma, ["memory.newMBC", "memory.newMBC1", "memory.newMBC2", "memory.newMBC3", "memory.newMBC5"])]
    return filter_tasks(ts)


def run(tier, seed):
    return run_property("C25", tasks, "proof", tier, seed, ASSUME, TRUSTED)
