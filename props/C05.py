"""C05 - HALT idles until an enabled request and reproduces the halt bug."""
from engine.driver import run_property, Task, LemmaTask
from props.common import filter_tasks, TRUSTED, BASE_ASSUME, scan_lemma
import props.cpu_common as cc

MANIFEST = {
    "level": "proof",
    "text": "Lemmas over the real halt/next/checkInterrupts/ExecuteMachineCycle code with IE, IF, IME and all registers symbolic: (1) executing HALT sets halted unless IME is clear and a request is already pending, in which case it sets haltbug instead, takes one cycle and changes nothing else; (2) idle invariant - halted and nothing pending: one ExecuteMachineCycle call changes no architectural CPU field, no interrupt register and performs no bus access (inductive, hence for any idle length, no bound); (3) halted, IME set, request pending: the dispatch of C04 happens in exactly 6 calls (one more than from a running CPU) with no fetch; (4) halted, IME clear, request pending: exactly one call with no bus access that changes neither IF/IE nor PC/SP/registers and clears halted, after which the instruction at PC is fetched; (5) halt bug - for every defined opcode (base and CB) executed with haltbug set, the instruction has its documented effect computed as if it were located one byte earlier (the opcode fetch does not advance PC, so the byte after HALT is decoded twice) and haltbug is cleared. Outside the instruction cycle: the button-press callback OnInput is verified against 'assigns cpu.stopped' (it cannot end HALT), and an SSA scan shows the halted/haltbug flags are written by halt(), checkInterrupts() and next() only. The interrupt-controller contracts the lemmas rely on (Pending = IE & IF & 0x1F != 0, Enabled, the per-source predicates) are discharged in this check as well. The same idle lemma is proved for a CPU stopped by STOP (lemma:stop-idle).",
    "note": "Same trusted base as C01/C04. The request 'appearing' is modelled as the hardware setting an IF bit between two calls (any IF/IE value satisfying the hypothesis). A built-in canary obligation must fail on every run.",
    "technique": "sequence lemmas + an inductive idle invariant over the real go/ssa of the CPU boundary logic; z3",
    "design_ref": "DESIGN.md section 4 C05",
}


def halt_writers(ctx):
    from props.common import field_writers, not_confined
    allowed = {"halted": {"(*cpu.CPU).halt", "(*cpu.CPU).checkInterrupts"}, "haltbug": {"(*cpu.CPU).halt", "(*cpu.CPU).next"}}
    bad = {}
    for fl, ok in allowed.items():
        ws = field_writers(ctx.prog, "cpu.CPU", fl)
        nc = not_confined(ctx.prog, ws, ok)
        if nc:
            bad[fl] = nc
    return not bad, "writers of the halt state outside halt()/checkInterrupts()/next(): %s" % bad


def tasks(ctx):
    ts = [LemmaTask("lemma:halt", cc.halt_lemmas, ["(*cpu.CPU).halt", "(*cpu.CPU).checkInterrupts", "(*cpu.CPU).next", "(*cpu.CPU).ExecuteMachineCycle"])]
    ts += [cc.haltbug_task(ch, i) for i, ch in enumerate(cc.opcode_chunks(16))]
    # nothing outside the instruction cycle ends (or starts) the idle state: the button-press callback only leaves STOP,
    # and the halted / haltbug flags are written by halt() and the interrupt check alone
    ts.append(Task("(*cpu.CPU).OnInput", "(*cpu.CPU).OnInput"))
    # the lemmas use the interrupt controller through its contracts ("pending" = some interrupt both enabled in IE and requested
    # in IF, bits 0-4 only): those contracts are discharged here too
    from props.C04 import I, IFUNCS
    ts += [Task(I + f, I + f) for f in IFUNCS]
    ts.append(scan_lemma("scan:halt-state-written-only-by-halt-and-the-interrupt-check", halt_writers, ["package cpu (SSA scan)"]))
    return filter_tasks(ts)


# components whose representation invariants the lemmas above assume in every reachable state (engine/closure.py adds
# the preservation obligations of all their functions)
tasks.invariant_packages = ('interrupts',)


def run(tier, seed):
    return run_property("C05", tasks, "proof", tier, seed, BASE_ASSUME + ["spec/sm83.py is the oracle for the instruction executed under the halt bug"], TRUSTED)
