import os, re
import z3
from engine.driver import run_property, Task, LemmaTask, Lem
from engine.core import Iface, Opaque, ChanV, Ptr, NIL

TRUSTED = ["golang.org/x/tools/go/ssa v0.29.0 (SSA construction)", "/verif/engine (VC generator: SSA semantics, contract language)",
           "z3 5.1.0 (z3py) with z3 4.8.12 / cvc5 1.0.3 as fallback", "go1.23.5 toolchain (counterexample replay only)"]
BASE_ASSUME = [
    "go/ssa construction (x/tools v0.29.0) and the engine's bit-vector semantics of the supported SSA subset are trusted (DESIGN.md Appendix A)",
    "integers are machine integers of their Go width in code and contracts (never mathematical)",
]


def filter_tasks(tasks):
    pat = os.environ.get("VERIF_ONLY")
    if not pat:
        return tasks
    return [t for t in tasks if re.search(pat, t.name)]


def field_users(prog, struct_short, field):
    """functions (short names) containing a FieldAddr/Field of struct_short.field"""
    out = set()
    for f in prog.funcs.values():
        for b in f.blocks:
            for ins in b["instrs"]:
                if ins["op"] in ("FieldAddr", "Field"):
                    t = prog.under(ins["xt"])
                    tid = ins["xt"]
                    if t["k"] == "ptr":
                        tid = t["elem"]
                    if prog.types[tid]["k"] != "named":
                        continue
                    from engine.prog import short
                    if short(prog.types[tid]["name"]) != struct_short:
                        continue
                    fl = prog.struct_fields(tid)[ins["idx"]]
                    if fl["name"] == field:
                        out.add(f.short)
    return out


def field_writers(prog, struct_short, field):
    """functions (short names) that store to struct_short.field (a Store whose address is a FieldAddr of that field, or a
    derived address inside it)"""
    from engine.prog import short
    out = set()
    for f in prog.funcs.values():
        defs = {}
        for b in f.blocks:
            for ins in b["instrs"]:
                if "n" in ins:
                    defs[ins["n"]] = ins

        def is_field(v, depth=0):
            if depth > 6 or not isinstance(v, dict) or v.get("k") != "reg":
                return False
            d = defs.get(v["n"])
            if d is None:
                return False
            if d["op"] == "FieldAddr":
                t = prog.under(d["xt"])
                tid = t["elem"] if t["k"] == "ptr" else d["xt"]
                if prog.types[tid]["k"] == "named" and short(prog.types[tid]["name"]) == struct_short and \
                        prog.struct_fields(tid)[d["idx"]]["name"] == field:
                    return True
                return is_field(d["x"], depth + 1)
            if d["op"] == "IndexAddr":
                return is_field(d["x"], depth + 1)
            return False
        for b in f.blocks:
            for ins in b["instrs"]:
                if ins["op"] == "Store" and is_field(ins["addr"]):
                    out.add(f.short)
    return out


def callers_map(prog):
    """short name -> set of short names of functions that call it statically, plus the set of functions used as values"""
    from engine.prog import short
    callers, as_value = {}, set()
    for f in prog.funcs.values():
        for b in f.blocks:
            for ins in b["instrs"]:
                if ins["op"] in ("Call", "Defer", "Go"):
                    c = ins["call"]
                    if c.get("static"):
                        callers.setdefault(short(c["static"]), set()).add(f.short)
                    for a in c["args"]:
                        if a and a.get("k") == "func":
                            as_value.add(short(a["n"]))
                    if c.get("fn", {}).get("k") == "func" and not c.get("static"):
                        as_value.add(short(c["fn"]["n"]))
                elif ins["op"] == "MakeClosure":
                    as_value.add(short(ins["fn"]))
                else:
                    for key in ("x", "val", "y"):
                        v = ins.get(key)
                        if isinstance(v, dict) and v.get("k") == "func":
                            as_value.add(short(v["n"]))
    return callers, as_value


def not_confined(prog, funcs, allowed):
    """the members of `funcs` that are neither in `allowed` nor private helpers of it. A function counts as a helper of the
    allowed set when it is unexported, never used as a value, has at least one static caller and every caller is allowed or
    itself such a helper - so extracting part of an allowed function into a new unexported function is not flagged, while a
    new entry point (exported, or reachable from anywhere else) is."""
    callers, as_value = callers_map(prog)
    memo = {}

    def ok(fn, stack=()):
        if fn in allowed:
            return True
        if fn in memo:
            return memo[fn]
        if fn in stack:
            return True     # recursion among helpers: decided by the other callers
        base = fn.rsplit(".", 1)[-1]
        if base[:1].isupper() or fn in as_value or "$" in fn:
            memo[fn] = False
            return False
        cs = callers.get(fn, set())
        r = bool(cs) and all(ok(c, stack + (fn,)) for c in cs)
        memo[fn] = r
        return r
    return sorted(f for f in funcs if not ok(f))


def scan_lemma(name, compute, functions=()):
    """structural obligation decided on the exported SSA: compute(ctx) -> (ok: bool, detail: str)"""
    def run(ctx, eng, ce):
        lem = Lem()
        ok, detail = compute(ctx)
        lem.add(name, z3.BoolVal(not ok), kind="scan", info={"detail": detail})
        lem.notes.append("%s: %s" % (name, detail))
        return lem
    return LemmaTask(name, run, functions)


def ext_iface(name="ext"):
    def ov(world, tid, nm, oid, path):
        return Iface("ext:" + name, Opaque(name))
    return ov


def nil_value(world, tid, nm, oid, path):
    return world.e.zero(tid)
