import os, re


def filter_tasks(tasks):
    pat = os.environ.get("VERIF_ONLY")
    if not pat:
        return tasks
    return [t for t in tasks if re.search(pat, t.name)]
