"""C15 - rendered frames equal the DMG composition of VRAM, OAM and registers."""
import os, sys
import z3
from engine.driver import run_property, Task, LemmaTask, Lem
from engine.core import State, Ptr, ZArr, ArrV, StructV, concrete_bool
from engine.verify import World
from engine import vsl
from props.common import filter_tasks, TRUSTED, BASE_ASSUME
from props.mem_common import keep_labels
import props.ppu_common as pc
sys.path.insert(0, os.path.join(os.path.dirname(os.path.dirname(os.path.abspath(__file__))), "spec"))
import render_spec as rs

MANIFEST = {
    "level": "proof",
    "text": "Pixel lemma: the real renderPixel (its 40-iteration object loop unrolled completely with state merging - the trip count is the array length, so this is a full proof, not a bound) is executed for a symbolic pixel (x<160, y<144) over symbolic VRAM, OAM, LCDC bits, SCX/SCY/WX/WY and palettes, and the single SetRGBA it performs is proved to address (x,y) with R=G=B equal to the composition specification spec/render_spec.py (written from documentation: tile pixel = 2*high plane bit + low plane bit, background scrolled by SCX/SCY in the selected map and addressing mode, window at (WX-7,WY), first opaque object in OAM order with flips, clipped at every edge, hidden behind non-zero background when it has background priority, BGP/OBP0/OBP1, four grey levels) under the statement's scene hypotheses. Object selection: checkOverlappingSprite is proved to set spriteOverlaps[s] to the clipped on-line predicate. Scheduling: with renderPixel/checkOverlappingSprite abstracted to ghost events, ppu.EndMachineCycle is proved to scan objects 2t and 2t+1 in cycle t of mode 2 and to render pixels 4(t-20)..4(t-20)+3 of the current line in cycle t of mode 3 (so all 40 objects are scanned before, and each of the 160 pixels is rendered exactly once in, every visible line), and the invariant 'after cycle t of mode 2 the first 2t+2 entries of spriteOverlaps equal the on-line predicate of the current line' is proved preserved for a constant OAM. Together: every pixel of a frame of a constant scene equals the composition.",
    "note": "Trusted: go/ssa, engine semantics, z3; image.SetRGBA assumed to set exactly the addressed pixel. Hypotheses (from the statement): LCD and background enabled, 8x8 objects, WX in 7..166, no DMA during the frame, debug off; 'at most 10 objects per line, ordered by X' is what makes OAM order equal DMG priority.",
    "technique": "complete unrolling + merging of the real go/ssa loop against a documentation-derived composition function; scheduling lemmas with ghost events; z3 (arrays + bit-vectors)",
    "design_ref": "DESIGN.md section 4 C15",
}
P = pc.P


def ppu_world(ctx, eng, ce):
    st = State()
    ctx.seed_globals(st)
    w = World(eng, st)
    ppu = w.component("ppu.PPU")
    oam = w.component("oam.OAM")
    eng.ev = ce
    eng.contracts = ce.contracts
    return st, w, ppu, oam


def pf(ctx, eng, st, ptr, tname, name):
    tid = ctx.prog.named[tname]
    return eng.load(st, Ptr(ptr.obj, tuple(i for i, _ in ctx.prog.field_index(tid, name))))


def scene(ctx, eng, st, ppu, oam):
    g = lambda n: pf(ctx, eng, st, ppu, "ppu.PPU", n)
    S = {k: g(k) for k in ("scx", "scy", "wx", "wy", "highBgTileMap", "highWindowTileMap", "lowTileData", "windowEnabled", "spritesEnabled", "bgEnabled")}
    S["bgp"] = list(g("bgpColour").items)
    S["obp0"] = list(g("obp0Colour").items)
    S["obp1"] = list(g("obp1Colour").items)
    vram = g("videoRAM").term
    oamarr = pf(ctx, eng, st, oam, "oam.OAM", "oam").term
    return S, vram, oamarr


def pixel_lemma(ctx, eng, ce):
    lem = Lem()
    st, w, ppu, oam = ppu_world(ctx, eng, ce)
    eng.modular = set()
    eng.check_feas = False     # merging keeps the unrolled loop to one state; infeasible arms are discharged with the obligations
    S, vram, oamarr = scene(ctx, eng, st, ppu, oam)
    x, y = z3.BitVec("x", 8), z3.BitVec("y", 8)
    g = lambda n: pf(ctx, eng, st, ppu, "ppu.PPU", n)
    hyp = [z3.ULT(x, 160), z3.ULT(y, 144), z3.Not(g("debug")), S["bgEnabled"], z3.Not(g("spritesLarge")), z3.UGE(S["wx"], 7), z3.ULE(S["wx"], 166),
           z3.Not(pf(ctx, eng, st, oam, "oam.OAM", "dmaRunning"))]
    for pal in (S["bgp"], S["obp0"], S["obp1"]):
        hyp += [z3.ULE(c, 3) for c in pal]
    ov = g("spriteOverlaps").items
    for i in range(40):
        Y = z3.Select(oamarr, z3.BitVecVal(4 * i, 64))
        hyp.append(ov[i] == rs.obj_on_line(Y, y))
    for h in hyp:
        st.pc.append(h)
    lem.covers.append(("lemma:pixel#cover", st.pcond()))
    st0 = st.fork()
    eng.terminals, eng.obligs = [], []
    outs = eng.call_function(st, ctx.prog.func(P + "renderPixel").name, [ppu, x, y])
    want = rs.pixel(vram, oamarr, S, x, y)
    shape, pos, col = [], [], []
    for (s, _) in outs:
        px = [e for e in s.trace if e[0] == "px"]
        if len(px) != 1:
            shape.append(s.pcond())
            continue
        e = px[0]
        pos.append(z3.And(s.pcond(), z3.Or(e[1] != z3.ZeroExt(56, x), e[2] != z3.ZeroExt(56, y))))
        col.append(z3.And(s.pcond(), z3.Or(e[3] != want, e[4] != want, e[5] != want, e[6] != 0xFF)))
    lem.add("lemma:pixel:exactly-one-SetRGBA", z3.Or(*shape) if shape else z3.BoolVal(False))
    lem.add("lemma:pixel:at-x-y", z3.Or(*pos) if pos else z3.BoolVal(True))
    ob = lem.add("lemma:pixel:colour-equals-composition", z3.Or(*col) if col else z3.BoolVal(True),
                 info={"replay": lambda c, pr, o, res: pixel_replay(c, pr, o, res, w, st0, ppu, x, y, want, outs)})
    pv = [t.state.pcond() for t in eng.terminals] + [o.viol for o in eng.obligs if o.kind == "no-panic"]
    lem.add("lemma:pixel:no-panic", z3.Or(*pv) if pv else z3.BoolVal(False))
    lem.add("canary:pixel-is-always-white", z3.Or(*[z3.And(s.pcond(), [e for e in s.trace if e[0] == "px"][0][3] != 0xFF) for (s, _) in outs
                                                     if len([e for e in s.trace if e[0] == "px"]) == 1]) if outs else z3.BoolVal(False), info={"canary": True})
    lem.notes.append("renderPixel: %d outcome(s) after merging" % len(outs))
    lem.stats = dict(eng.stats)
    return lem


def pixel_replay(ctx, prop, ob, res, w, pre, ppu, x, y, want, outs):
    """build the model's PPU/OAM state with the real types, give it a real 160x144 frame, call the real renderPixel and read the pixel"""
    from engine.replay import GoGen, build_state, run_go_test, mval, HELPERS
    import json
    model = res.model
    gen = GoGen(ctx, "github.com/scottyw/tetromino/gameboy/ppu")
    gen.imports.add("image")
    try:
        inputs = build_state(gen, model, pre, [ppu.obj], w)
    except ValueError as ex:
        return {"status": "unconfirmed", "reason": str(ex)}
    xv, yv = mval(model, x), mval(model, y)
    body = ["objs := map[string]reflect.Value{}"] + gen.lines + [
        "p := objs[%s].Interface().(*PPU)" % json.dumps(ppu.obj),
        "p.frame = image.NewRGBA(image.Rect(0, 0, 160, 144))",
        "out := map[string]interface{}{}",
        "func() {",
        "\tdefer func() { if r := recover(); r != nil { out[\"panic\"] = fmt.Sprint(r) } }()",
        "\tp.renderPixel(%d, %d)" % (xv, yv),
        "}()",
        "c := p.frame.RGBAAt(%d, %d)" % (xv, yv),
        "out[\"r\"], out[\"g\"], out[\"b\"], out[\"a\"] = c.R, c.G, c.B, c.A",
        "b, _ := json.Marshal(out)", "os.WriteFile(os.Getenv(\"VERIF_REPLAY_OUT\"), b, 0644)"]
    imps = "\n".join('\t"%s"' % i for i in sorted(gen.imports))
    src = "package ppu\n\nimport (\n%s\n)\n\nvar _ = math.Pi\nvar _ = hex.EncodeToString\nvar _ unsafe.Pointer\n%s\nfunc TestVerifReplay(t *testing.T) {\n\t%s\n}\n" % (
        imps, HELPERS, "\n\t".join(body))
    rc, log, out = run_go_test(ctx, "github.com/scottyw/tetromino/gameboy/ppu", src)
    small = {k: v for k, v in inputs.items() if not isinstance(v, dict) and ("Colour" in k or k.split(".")[-1] in ("scx", "scy", "wx", "wy", "ly", "lowTileData",
             "highBgTileMap", "highWindowTileMap", "windowEnabled", "spritesEnabled", "bgEnabled"))}
    rep = {"inputs": dict(small, x=xv, y=yv), "go_rc": rc, "function": "(*ppu.PPU).renderPixel"}
    if out is None:
        rep.update(status="error", log=log[-1500:])
        return rep
    rep["real"] = out
    spec = mval(model, want)
    rep["specification"] = spec
    eng_col = None
    for (s, _) in outs:
        if z3.is_true(model.eval(s.pcond(), model_completion=True)):
            px = [e for e in s.trace if e[0] == "px"]
            if px:
                eng_col = mval(model, px[0][3])
    rep["engine"] = eng_col
    if "panic" in out:
        rep.update(status="confirmed", reason="real renderPixel panicked")
    elif eng_col is not None and out["r"] != eng_col:
        rep.update(status="engine-disagreement", diffs={"r": {"engine": eng_col, "real": out["r"]}})
    elif out["r"] != spec or out["g"] != spec or out["b"] != spec or out["a"] != 255:
        rep.update(status="confirmed", reason="real pixel %s differs from the composition %d" % (out, spec))
    else:
        rep.update(status="unconfirmed", reason="real pixel equals the specification on this model")
    return rep


def h_render(eng, st, args, site):
    st.trace = st.trace + (("render", args[1], args[2]),)
    return [(st, None)]


def h_scan(eng, st, args, site):
    st.trace = st.trace + (("scan", args[1]),)
    return [(st, None)]


def schedule_lemma(ctx, eng, ce):
    """which objects are scanned / which pixels are rendered in the call that processes frame position q"""
    lem = Lem()
    st, w, ppu, oam = ppu_world(ctx, eng, ce)
    eng.abstract = dict(eng.abstract)
    eng.abstract.update({P + "renderPixel": h_render, P + "checkOverlappingSprite": h_scan})
    eng.modular = {k for k, c in ce.contracts.items() if c.assigns is not None and not c.inline and
                   (c.short.startswith("(*interrupts.") or c.short.startswith("(*oam."))}
    f = ctx.prog.func(P + "EndMachineCycle")
    env = ce.param_env(f, [ppu], ce.contracts.get(f.name))
    for r in ce.contracts[f.name].requires:
        st.pc.append(ce.holds(r, env, st, st))
    g = lambda s, n: pf(ctx, eng, s, ppu, "ppu.PPU", n)
    st.pc.append(g(st, "enabled"))
    q = g(st, "ticks")
    line8 = z3.Extract(7, 0, q / 114)
    tl = z3.Extract(7, 0, z3.SRem(q, 114))
    pre = st.fork()
    lem.covers.append(("lemma:schedule#cover", pre.pcond()))
    outs = eng.call_function(st, f.name, [ppu])
    viol = []
    for (s, _) in outs:
        evs = [e for e in s.trace if e[0] in ("render", "scan")]
        mode = g(s, "mode")
        gd = s.pcond()
        kinds = [e[0] for e in evs]
        if kinds == ["scan", "scan"]:
            viol.append(z3.And(gd, z3.Not(z3.And(mode == 2, z3.ULT(tl, 20), evs[0][1] == tl * 2, evs[1][1] == tl * 2 + 1))))
        elif kinds == ["render"] * 4:
            ok = [mode == 3, z3.UGE(tl, 20), z3.ULT(tl, 60), z3.ULT(line8, 144)]
            for k in range(4):
                ok += [evs[k][1] == (tl - 20) * 4 + k, evs[k][2] == line8]
            viol.append(z3.And(gd, z3.Not(z3.And(*ok))))
        elif not kinds:
            # nothing scanned or rendered: must not be a mode-2 cycle nor a mode-3 cycle with pixels left
            viol.append(z3.And(gd, z3.Or(mode == 2, z3.And(mode == 3, z3.ULT(tl, 60)))))
        else:
            viol.append(gd)
    lem.add("lemma:schedule:scan-2t-2t+1-in-mode-2-render-4-pixels-in-mode-3", z3.Or(*viol) if viol else z3.BoolVal(True))
    lem.stats = dict(eng.stats)
    return lem


def overlap_invariant(ctx, eng, ce):
    """constant OAM: after the call that processes cycle t < 20 of a visible line, spriteOverlaps[s] == on_line(s, ly) for s < 2t+2,
    and the entries are not touched again until the line ends (real checkOverlappingSprite inlined, renderPixel abstracted)"""
    lem = Lem()
    st, w, ppu, oam = ppu_world(ctx, eng, ce)
    eng.abstract = dict(eng.abstract)
    eng.abstract.update({P + "renderPixel": h_render})
    eng.modular = {k for k, c in ce.contracts.items() if c.assigns is not None and not c.inline and c.short.startswith("(*interrupts.")}
    f = ctx.prog.func(P + "EndMachineCycle")
    env = ce.param_env(f, [ppu], ce.contracts.get(f.name))
    for r in ce.contracts[f.name].requires:
        st.pc.append(ce.holds(r, env, st, st))
    g = lambda s, n: pf(ctx, eng, s, ppu, "ppu.PPU", n)
    st.pc.append(g(st, "enabled"))
    st.pc.append(z3.Not(pf(ctx, eng, st, oam, "oam.OAM", "dmaRunning")))
    q = g(st, "ticks")
    st.pc.append(q / 114 < 144)
    line8 = z3.Extract(7, 0, q / 114)
    tl = z3.SRem(q, 114)
    oamarr = pf(ctx, eng, st, oam, "oam.OAM", "oam").term
    ov0 = g(st, "spriteOverlaps").items

    def on(i):
        return rs.obj_on_line(z3.Select(oamarr, z3.BitVecVal(4 * i, 64)), line8)
    # invariant at entry: entries below 2*tl are valid for this line (all 40 once tl >= 20)
    for i in range(40):
        st.pc.append(z3.Implies(z3.Or(tl * 2 > i, tl >= 20), ov0[i] == on(i)))
    pre = st.fork()
    lem.covers.append(("lemma:overlaps#cover", pre.pcond()))
    outs = eng.call_function(st, f.name, [ppu])
    viol = []
    for (s, _) in outs:
        ov1 = g(s, "spriteOverlaps").items
        oam1 = pf(ctx, eng, s, oam, "oam.OAM", "oam").term
        bad = [oam1 != oamarr]
        for i in range(40):
            bad.append(z3.And(z3.Or((tl + 1) * 2 > i, tl + 1 >= 20), ov1[i] != on(i)))
        viol.append(z3.And(s.pcond(), tl < 113, z3.Or(*bad)))
    lem.add("lemma:overlaps:prefix-invariant-preserved-within-a-line", z3.Or(*viol) if viol else z3.BoolVal(True))
    lem.stats = dict(eng.stats)
    return lem


def tasks(ctx):
    keep = keep_labels({"overlap", "value", "0"})
    ts = [LemmaTask("lemma:pixel", pixel_lemma, [P + "renderPixel", P + "findWindowPixel", P + "findBackgroundPixel", P + "readTilePixel", "(*oam.OAM).PPURead"]),
          LemmaTask("lemma:schedule", schedule_lemma, [P + "EndMachineCycle", P + "checkOverlappingSprites"]),
          LemmaTask("lemma:overlaps", overlap_invariant, [P + "EndMachineCycle", P + "checkOverlappingSprite"]),
          Task(P + "checkOverlappingSprite", P + "checkOverlappingSprite"), Task(P + "readTilePixel", P + "readTilePixel"),
          # the contracts ppu.EndMachineCycle uses the renderer and the OAM scan through (frame, preconditions, crash freedom)
          Task(P + "renderPixel", P + "renderPixel"), Task(P + "checkOverlappingSprites", P + "checkOverlappingSprites")]
    return filter_tasks(ts)


# components whose representation invariants the lemmas above assume in every reachable state (engine/closure.py adds
# the preservation obligations of all their functions)
tasks.invariant_packages = ('ppu', 'oam')


def run(tier, seed):
    return run_property("C15", tasks, "proof", tier, seed, BASE_ASSUME + ["spec/render_spec.py is the oracle (documentation-derived)",
                        "(*image.RGBA).SetRGBA sets exactly the addressed pixel (ghost pixel event)"], TRUSTED)
