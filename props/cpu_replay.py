"""Replay of a CPU lemma counterexample on the real machine: the real components are built with their
constructors (cpu.New + Initialize, memory.New with a ROM-only image, ...), the model's registers are installed,
code and data bytes are placed in work RAM / high RAM at the model's addresses, and ExecuteMachineCycle is
called until isFinished(); the architectural result, the cycle count and the per-cycle memory snapshots are
compared with the engine's prediction under the model (which z3 showed to differ from the specification)."""
import json
import z3
from engine.replay import run_go_test, mval
from engine import solve
import props.cpu_common as cc

GO = r'''package cpu

import (
	"encoding/json"
	"os"
	"testing"

	"github.com/scottyw/tetromino/gameboy/audio"
	"github.com/scottyw/tetromino/gameboy/controller"
	"github.com/scottyw/tetromino/gameboy/interrupts"
	"github.com/scottyw/tetromino/gameboy/memory"
	"github.com/scottyw/tetromino/gameboy/oam"
	"github.com/scottyw/tetromino/gameboy/ppu"
	"github.com/scottyw/tetromino/gameboy/serial"
	"github.com/scottyw/tetromino/gameboy/timer"
)

type vrEv struct {
	Cycle int
	Addr  uint16
	Val   uint8
}

func TestVerifReplay(t *testing.T) {
	rom := make([]byte, 0x8000)
	%(rominit)s
	i := interrupts.New()
	o := oam.New()
	a := audio.New(nil, nil)
	p := ppu.New(i, o, false)
	p.WriteLCDC(0x00)
	s := serial.New(nil)
	tm := timer.New()
	ct := controller.New()
	m := memory.New(rom, i, o, p, ct, s, tm, a)
	c := New(i, o, false, m)
	c.Initialize()
	%(setup)s
	out := map[string]interface{}{}
	watch := []uint16{%(watch)s}
	reads := []vrEv{%(reads)s}
	writes := []vrEv{}
	last := map[uint16]uint8{}
	for _, w := range watch {
		last[w] = m.Read(w)
	}
	n := 0
	done := 0
	func() {
		defer func() {
			if r := recover(); r != nil {
				out["panic"] = r
			}
		}()
		for {
			n++
			// a byte that the engine says is consumed in cycle k holds its value only during cycle k
			for _, r := range reads {
				if r.Cycle != n {
					m.Write(r.Addr, r.Val^0xff)
				}
			}
			for _, r := range reads {
				if r.Cycle == n {
					m.Write(r.Addr, r.Val)
				}
			}
			for _, w := range watch {
				last[w] = m.Read(w)
			}
			c.ExecuteMachineCycle()
			for _, w := range watch {
				v := m.Read(w)
				if v != last[w] {
					writes = append(writes, vrEv{n, w, v})
					last[w] = v
				}
			}
			if c.isFinished() {
				done++
			}
			if done >= %(ninstr)d || n >= 40 {
				break
			}
		}
	}()
	out["cycles"] = n
	out["writes"] = writes
	out["regs"] = map[string]uint16{"a": uint16(c.a), "b": uint16(c.b), "c": uint16(c.c), "d": uint16(c.d), "e": uint16(c.e),
		"h": uint16(c.h), "l": uint16(c.l), "f": uint16(c.f), "sp": c.sp, "pc": c.pc}
	out["ime"] = i.Enabled()
	out["if"] = i.ReadIF()
	out["ie"] = i.ReadIE()
	out["halted"] = c.halted
	out["stopped"] = c.stopped
	out["haltbug"] = c.haltbug
	%(extraout)s
	b, _ := json.Marshal(out)
	os.WriteFile(os.Getenv("VERIF_REPLAY_OUT"), b, 0644)
}
'''


def in_ram(a):
    return z3.Or(z3.And(z3.UGE(a, 0xC000), z3.ULE(a, 0xDDFF)), z3.And(z3.UGE(a, 0xFF80), z3.ULE(a, 0xFFFE)))


def replay_instruction(ctx, prop, ob, res, extra_setup=None):
    eng = ob.eng
    b = ob.base
    finals = ob.finals
    pre = ob.pre
    # ask for a model whose code and data live in plain RAM, pairwise distinct
    cons = [ob.viol]
    for (s, n) in finals:
        evs = cc.bus_events(s.trace)
        guard = s.pcond()
        rd_addrs = []
        wr_addrs = []
        for e in evs:
            if e[0] == "R":
                # reads may also come from the ROM image (constant bytes outside the cartridge header)
                in_rom = z3.And(z3.ULT(e[1], 0x8000), z3.Or(z3.ULT(e[1], 0x100), z3.UGE(e[1], 0x150)))
                cons.append(z3.Implies(guard, z3.Or(in_ram(e[1]), in_rom)))
                for (x, cyc, xv) in rd_addrs:
                    if cyc == e[3]:
                        cons.append(z3.Implies(guard, e[1] != x))
                    cons.append(z3.Implies(z3.And(guard, z3.ULT(e[1], 0x8000)), z3.Or(e[1] != x, e[2] == xv)))
                rd_addrs.append((e[1], e[3], e[2]))
            else:
                cons.append(z3.Implies(guard, in_ram(e[1])))
            if False:
                pass
            else:
                wr_addrs.append(e[1])
    cons.append(z3.Or(*[s.pcond() for (s, n) in finals]))
    st, model = solve.check_sat(z3.And(*cons), 30000)
    placed = st == "sat"
    if not placed:
        return {"status": "unconfirmed", "reason": "no counterexample with code and data in plain RAM (%s)" % st}
    chosen = None
    for (s, n) in finals:
        if z3.is_true(model.eval(s.pcond(), model_completion=True)):
            chosen = (s, n)
            break
    if chosen is None:
        return {"status": "unconfirmed", "reason": "model selects no final state"}
    s, n = chosen
    regs = {r: mval(model, cc.fld(eng, pre, b, r)) for r in cc.REGS8 + ["sp", "pc"]}
    ints = {k: mval(model, cc.ifld(eng, pre, b, k)) for k in ("ime", "ieHighBits", "vblankEnabled", "statEnabled", "timerEnabled",
            "serialEnabled", "joypadEnabled", "vblankRequested", "statRequested", "timerRequested", "serialRequested", "joypadRequested")}
    ie = ints["ieHighBits"] | ints["vblankEnabled"] | ints["statEnabled"] << 1 | ints["timerEnabled"] << 2 | ints["serialEnabled"] << 3 | ints["joypadEnabled"] << 4
    iff = ints["vblankRequested"] | ints["statRequested"] << 1 | ints["timerRequested"] << 2 | ints["serialRequested"] << 3 | ints["joypadRequested"] << 4
    setup = []
    for r in cc.REGS8:
        setup.append("c.%s = 0x%02x" % (r, regs[r]))
    setup.append("c.sp = 0x%04x" % regs["sp"])
    setup.append("c.pc = 0x%04x" % regs["pc"])
    extra = [nm for nm in ("eiPending", "eiDelay", "imeScheduled", "enableInterrupts") if cc.has_field(eng, b, nm)]
    for fl in ["halted", "stopped", "haltbug"] + extra:
        setup.append("c.%s = %s" % (fl, "true" if mval(model, cc.fld(eng, pre, b, fl)) else "false"))
    setup.append("i.WriteIE(0x%02x)" % ie)
    setup.append("i.WriteIF(0x%02x)" % iff)
    setup.append("i.Enable()" if ints["ime"] else "i.Disable()")
    if extra_setup:
        setup.extend(extra_setup)
    evs = cc.bus_events(s.trace)
    reads, watch, rominit = [], [], []
    pred_writes = []
    for e in evs:
        addr = mval(model, e[1])
        val = mval(model, e[2])
        cyc = e[3]
        if e[0] == "R" and addr < 0x8000:
            rominit.append("rom[0x%04x] = 0x%02x" % (addr, val))
        elif e[0] == "R":
            reads.append("{%d, 0x%04x, 0x%02x}" % (cyc, addr, val))
        else:
            pred_writes.append({"Cycle": cyc, "Addr": addr, "Val": val})
            if addr not in watch:
                watch.append(addr)
    src = GO % {"setup": "\n\t".join(setup), "watch": ", ".join("0x%04x" % w for w in watch), "reads": ", ".join(reads), "rominit": "\n\t".join(rominit), "ninstr": int((ob.info or {}).get("ninstr", 1)),
                "extraout": "\n\t".join('out["%s"] = c.%s' % (nm, nm) for nm in extra)}
    rc, log, out = run_go_test(ctx, "github.com/scottyw/tetromino/gameboy/cpu", src)
    rep = {"inputs": dict(regs, ie=ie, iflag=iff, ime=ints["ime"], op=ob.info.get("op"), cb=ob.info.get("cb"),
                          reads=[r for r in reads], **{fl: bool(mval(model, cc.fld(eng, pre, b, fl))) for fl in ["halted", "stopped", "haltbug"] + extra}),
           "go_rc": rc, "function": "(*cpu.CPU).ExecuteMachineCycle x%d" % n}
    if out is None:
        rep.update(status="error", log=log, go_test=src)
        return rep
    rep["real"] = out
    pred = {r: mval(model, cc.fld(eng, s, b, r)) for r in cc.REGS8 + ["sp", "pc"]}
    pred_ime = bool(mval(model, cc.ifld(eng, s, b, "ime")))
    rep["engine"] = {"regs": pred, "cycles": n, "writes": pred_writes, "ime": pred_ime}
    diffs = {}
    for r, v in pred.items():
        if out["regs"].get(r) != v:
            diffs[r] = {"engine": v, "real": out["regs"].get(r)}
    if out["cycles"] != n:
        diffs["cycles"] = {"engine": n, "real": out["cycles"]}
    if out["ime"] != pred_ime:
        diffs["ime"] = {"engine": pred_ime, "real": out["ime"]}
    for nm in extra:
        pv = bool(mval(model, cc.fld(eng, s, b, nm)))
        rep["engine"][nm] = pv
        if nm in out and out[nm] != pv:
            diffs[nm] = {"engine": pv, "real": out[nm]}
    # a write that stores the value already present is invisible to the snapshot: compare only visible ones
    realw = [(w["Cycle"], w["Addr"], w["Val"]) for w in (out.get("writes") or [])]
    for w in realw:
        if not any((p["Cycle"], p["Addr"], p["Val"]) == w for p in pred_writes):
            diffs["write@%d" % w[0]] = {"engine": pred_writes, "real": realw}
    if diffs:
        rep.update(status="engine-disagreement", diffs=diffs, go_test=src)
    else:
        rep.update(status="confirmed")
    return rep
