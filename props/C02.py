"""C02 - every instruction takes its documented number of machine cycles."""
from engine.driver import run_property
from props.common import filter_tasks, TRUSTED, BASE_ASSUME
import props.cpu_common as cc

MANIFEST = {
    "level": "proof",
    "text": "The per-opcode lemmas of C01 (real ExecuteMachineCycle + real isFinished over the dispatch tables computed by the real Initialize, all 501 defined opcodes) additionally prove that the number of ExecuteMachineCycle calls between two instruction boundaries equals the documented cycle count; for the 16 conditional opcodes F is symbolic, the lemma splits on the real early-finish test (isFinishedEarly closures with their captured flag predicate and early/last constants) and proves that the early exit is taken exactly when the documented condition on the current flags is false, for all 16 flag nibbles at once.",
    "note": "Same trusted base and hypotheses as C01. The documented cycle table is spec/sm83.py (Appendix C of DESIGN.md); the thorough tier cross-checks it against the repository's own metadata table. Interrupt dispatch length is C04's, HALT wake-up length C05's obligation.",
    "technique": "per-opcode lemmas over the real go/ssa against an ISA timing table; z3",
    "design_ref": "DESIGN.md section 4 C02",
}
ASSUME = BASE_ASSUME + ["spec/sm83.py cycle table is the oracle (documentation-derived)"]


def tasks(ctx):
    return filter_tasks([cc.opcode_task("C02", ch, i) for i, ch in enumerate(cc.opcode_chunks(32))])


def run(tier, seed):
    return run_property("C02", tasks, "proof", tier, seed, ASSUME, TRUSTED)
