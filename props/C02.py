"""C02 - every instruction takes its documented number of machine cycles."""
from engine.driver import run_property, LemmaTask
from props.common import filter_tasks, TRUSTED, BASE_ASSUME
import props.cpu_common as cc

MANIFEST = {
    "level": "proof",
    "text": "The per-opcode lemmas of C01 (real ExecuteMachineCycle + real isFinished over the dispatch tables computed by the real Initialize, all 501 defined opcodes) additionally prove that the number of ExecuteMachineCycle calls between two instruction boundaries equals the documented cycle count; for the 16 conditional opcodes F is symbolic, the lemma splits on the real early-finish test (isFinishedEarly closures with their captured flag predicate and early/last constants) and proves that the early exit is taken exactly when the documented condition on the current flags is false, for all 16 flag nibbles at once. HALT: the timing clauses of the HALT lemmas are obligations here as well - HALT takes one cycle and then idles or (IME clear, request pending) continues at once, a wake-up with IME set dispatches after 6 cycles, one without IME takes exactly one cycle before the next fetch. All opcode lemmas start from an arbitrary instruction boundary, including one with a delayed EI pending.",
    "note": "Same trusted base and hypotheses as C01. The documented cycle table is spec/sm83.py (Appendix C of DESIGN.md); the thorough tier cross-checks it against the repository's own metadata table. Interrupt dispatch length is C04's, HALT wake-up length C05's obligation.",
    "technique": "per-opcode lemmas over the real go/ssa against an ISA timing table; z3",
    "design_ref": "DESIGN.md section 4 C02",
}
ASSUME = BASE_ASSUME + ["spec/sm83.py cycle table is the oracle (documentation-derived)"]


def tasks(ctx):
    ts = [cc.opcode_task("C02", ch, i) for i, ch in enumerate(cc.opcode_chunks(32))]
    # HALT's timing depends on what it decides: one machine cycle, then idle (halted), or - IME clear with a request already
    # pending - no idle at all (the next fetch follows at once); wake-up costs one extra cycle before a dispatch and exactly one
    # cycle without IME. These are the timing clauses of the HALT lemmas (C05 owns the rest).
    t = LemmaTask("lemma:halt", cc.halt_lemmas, ["(*cpu.CPU).halt", "(*cpu.CPU).checkInterrupts", "(*cpu.CPU).next"])
    t.keep = lambda name: any(k in name for k in (":decision", ":one-cycle", ":cycles", ":then-next-instruction", "canary", ":flow"))
    ts.append(t)
    # the length of the HALT idle period is "until an enabled interrupt is requested": nothing else may end it - the button-press
    # callback leaves STOP only, and only halt()/checkInterrupts()/next() write the halt state
    from props.C05 import halt_writers
    from props.common import scan_lemma
    from engine.driver import Task
    ts.append(Task("(*cpu.CPU).OnInput", "(*cpu.CPU).OnInput"))
    ts.append(scan_lemma("scan:halt-state-written-only-by-halt-and-the-interrupt-check", halt_writers, ["package cpu (SSA scan)"]))
    return filter_tasks(ts)


def run(tier, seed):
    return run_property("C02", tasks, "proof", tier, seed, ASSUME, TRUSTED)
