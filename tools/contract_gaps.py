#!/usr/bin/env python3
"""Diagnostic (not a check): which locations of a contract's assigns clause does its ensures clause leave undetermined?
For every contract with an assigns clause the contract is applied twice to the same symbolic pre-state (two independent
havocs, both assumed to satisfy every ensures clause); a location whose two post values can differ is one the contract does
not pin down - a change to the function that writes something else there keeps verifying. Used to decide where to strengthen
contracts; usage: python3-vt tools/contract_gaps.py [name-regex]"""
import sys, os, re, json
sys.path.insert(0, os.path.dirname(os.path.dirname(os.path.abspath(__file__))))
import z3
from engine.driver import Ctx
from engine.core import State, is_z3, StructV, ArrV, ZArr
from engine.verify import World
from engine.vsl import SpecError
from props.common import nil_value


def leaves(v, path=""):
    if is_z3(v):
        yield path, v
    elif isinstance(v, (StructV, ArrV)):
        for i, x in enumerate(v.items):
            yield from leaves(x, "%s.%d" % (path, i))
    elif isinstance(v, ZArr):
        yield path, v.term


def main():
    pat = sys.argv[1] if len(sys.argv) > 1 else "."
    ctx = Ctx(os.environ.get("VERIF_REPO", "/repo"), "quick", 0)
    report = {}
    for fn, c in sorted(ctx.contracts.items(), key=lambda kv: kv[1].short):
        if c.assigns is None or not re.search(pat, c.short) or not ctx.prog.has_func(c.short):
            continue
        eng, ce = ctx.engine()
        st = State()
        ctx.seed_globals(st)
        w = World(eng, st, {"Audio.ch2.sweep": nil_value})
        f = ctx.prog.func(c.short)
        try:
            args = [w.sym(prm["t"], prm["name"], "arg:" + prm["name"], ()) for prm in f.params]
            env = ce.param_env(f, args, c)
            for r in c.requires:
                st.assume(ce.holds(r, env, st, st))
            eng.obligs = []
            s1 = st.fork()
            s2 = st.fork()
            (s1, v1), = ce.apply_contract(eng, s1, c, args, "gap1")
            (s2, v2), = ce.apply_contract(eng, s2, c, args, "gap2")
        except Exception as ex:
            report[c.short] = "skipped: %s: %s" % (type(ex).__name__, str(ex)[:100])
            continue
        both = z3.And(s1.pcond(), s2.pcond())
        loose = []
        for a in c.assigns:
            try:
                lvs = ce.ev.lvalues(a, env, st)
            except SpecError:
                continue
            for lv in lvs:
                ptr = lv[1]
                try:
                    x1, x2 = eng.load(s1, ptr), eng.load(s2, ptr)
                except Exception:
                    continue
                for (p1, t1), (p2, t2) in zip(leaves(x1), leaves(x2)):
                    s = z3.Solver()
                    s.set("timeout", 3000)
                    s.add(both, t1 != t2)
                    if s.check() != z3.unsat:
                        loose.append("%s%s" % (a.text if hasattr(a, "text") else str(a), p1))
        if v1 is not None and is_z3(v1):
            s = z3.Solver()
            s.set("timeout", 3000)
            s.add(both, v1 != v2)
            if s.check() != z3.unsat:
                loose.append("result")
        report[c.short] = sorted(set(loose))
    n = 0
    for k, v in report.items():
        if v:
            n += 1
            print("%-45s %s" % (k, v if isinstance(v, str) else ", ".join(v)))
    print("%d contracts with an assigns clause examined, %d leave something undetermined" % (len(report), n))


if __name__ == "__main__":
    main()
