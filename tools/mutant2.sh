#!/bin/bash
# tools/mutant2.sh <patch> <prop> [<prop>...] : like mutant.sh but on a private export of /repo's HEAD under /var/tmp
# (does not touch /repo's working tree, so several can run at once). prints DETECTED / MISSED / BROKEN per property.
export GOFLAGS=-mod=mod GOPROXY=off GOSUMDB=off GOTOOLCHAIN=local
P="$(readlink -f "$1")"; shift
N="$(basename "$P")"; [ "$N" = "patch.diff" ] && N="$(basename "$(dirname "$P")")"
W=$(mktemp -d /var/tmp/verif-mut2-XXXXXX)
trap 'rm -rf "$W"' EXIT
git -C /repo archive HEAD | tar -x -C "$W" || exit 2
( cd "$W" && patch -p1 -s < "$P" ) || { echo "patch does not apply: $P"; exit 2; }
if ! (cd "$W" && go build ./gameboy/cpu/ ./gameboy/memory/ ./gameboy/timer/ ./gameboy/ppu/ ./gameboy/oam/ ./gameboy/audio/ ./gameboy/controller/ ./gameboy/serial/ ./gameboy/interrupts/ >/dev/null 2>&1 && gofmt -e gameboy/gameboy.go >/dev/null 2>&1 && go test -count=1 ./gameboy/cpu/ ./gameboy/timer/ >/dev/null 2>&1); then echo "$N: does not compile or fails pinned tests"; exit 3; fi
cd /verif
export VERIF_REPO="$W" VERIF_EVIDENCE_DIR="$W/.evidence"; mkdir -p "$VERIF_EVIDENCE_DIR"
for prop in "$@"; do
  out=$(./check $prop 2>&1); rc=$?
  v=$(echo "$out" | grep -c '^VIOLATION')
  if [ $rc -eq 1 ] && [ $v -gt 0 ]; then echo "$N $prop DETECTED ($v) $(echo "$out" | grep '^VIOLATION' | head -2 | sed 's/.*replay=\/verif\/replays\///' | tr '\n' ' ')";
  elif [ $rc -eq 0 ]; then echo "$N $prop MISSED";
  else echo "$N $prop BROKEN rc=$rc $(echo "$out" | grep CHECK- | head -2)"; fi
done
