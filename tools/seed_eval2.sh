#!/bin/bash
# tools/seed_eval.sh <worktree> <seed-name> <prop> [<prop>...]
# 1. confirm in the scratch worktree that the demo fails with the change and passes without it, that it builds and the
#    pinned tests pass; 2. store it under /verif/seeded/<seed-name>/; 3. apply it to /repo, run the checks, undo.
export GOFLAGS=-mod=mod GOPROXY=off GOSUMDB=off GOTOOLCHAIN=local
WT="$1"; NAME="$2"; shift; shift
S=/verif/seeded/$NAME
[ -f "$WT/_seed/patch.diff" ] || { echo "no patch in $WT/_seed"; exit 2; }
mkdir -p $S && cp $WT/_seed/patch.diff $WT/_seed/meta.json $S/ && cp $WT/_seed/demo_test.go $S/demo_test.go.txt
cd $WT || exit 2
demo=$(git status --porcelain | grep '_test.go' | awk '{print $2}' | head -1)
pkg=./$(dirname "$demo")
with=$(go test -count=1 $pkg 2>&1 | tail -1)
git apply -R _seed/patch.diff   # undo only the source change; the untracked demo test stays
without=$(go test -count=1 $pkg 2>&1 | tail -1)
git apply _seed/patch.diff
pinned=$(go build ./gameboy/cpu/ ./gameboy/memory/ ./gameboy/timer/ ./gameboy/ppu/ ./gameboy/oam/ ./gameboy/audio/ ./gameboy/controller/ ./gameboy/serial/ ./gameboy/interrupts/ 2>&1 | tail -1; mv "$demo" /tmp/_demo_hold_$$.go; go test -count=1 ./gameboy/cpu/ ./gameboy/timer/ 2>&1 | tail -2 | tr '\n' ' '; mv /tmp/_demo_hold_$$.go "$demo")
echo "demo=$demo | with change: $with | without: $without | pinned: $pinned"
cd /verif
res=$(tools/mutant2.sh $S/patch.diff "$@")
echo "$res"
python3 - "$S" "$with" "$without" "$pinned" "$res" <<'PY'
import json,sys
S,w,wo,pin,res=sys.argv[1:6]
m=json.load(open(S+'/meta.json'))
m['confirmed']={'demo_with_change':w,'demo_without_change':wo,'build_and_pinned_tests':pin}
m['checks']=res.splitlines()
json.dump(m,open(S+'/meta.json','w'),indent=1)
PY
