#!/bin/bash
# tools/mutant.sh <patch> <prop> [<prop>...] : apply a patch to /repo, run the quick checks, undo the patch.
# prints one line per property: DETECTED / MISSED / BROKEN
P="$(readlink -f "$1")"; shift
cd /repo || exit 2
if ! git diff --quiet; then echo "repo dirty"; exit 2; fi
git apply "$P" || { echo "patch does not apply: $P"; exit 2; }
# must still compile and pass the pinned tests
if ! (GOFLAGS=-mod=mod GOPROXY=off go build ./gameboy/cpu/ ./gameboy/memory/ ./gameboy/timer/ ./gameboy/ppu/ ./gameboy/oam/ ./gameboy/audio/ ./gameboy/controller/ ./gameboy/serial/ ./gameboy/interrupts/ >/dev/null 2>&1 && gofmt -e gameboy/gameboy.go >/dev/null 2>&1 && GOFLAGS=-mod=mod GOPROXY=off go test -count=1 ./gameboy/cpu/ ./gameboy/timer/ >/dev/null 2>&1); then echo "$(basename $P): does not compile or fails pinned tests"; git checkout -- .; exit 3; fi
cd /verif
export VERIF_EVIDENCE_DIR=/var/tmp/verif-mutant-evidence; mkdir -p $VERIF_EVIDENCE_DIR
for prop in "$@"; do
  out=$(./check $prop 2>&1); rc=$?
  v=$(echo "$out" | grep -c '^VIOLATION')
  if [ $rc -eq 1 ] && [ $v -gt 0 ]; then echo "$(basename $P) $prop DETECTED ($v) $(echo "$out" | grep '^VIOLATION' | head -2 | sed 's/.*replay=\/verif\/replays\///' | tr '\n' ' ')";
  elif [ $rc -eq 0 ]; then echo "$(basename $P) $prop MISSED";
  else echo "$(basename $P) $prop BROKEN rc=$rc $(echo "$out" | grep CHECK- | head -2)"; fi
done
git -C /repo checkout -- .
