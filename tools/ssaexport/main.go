// ssaexport dumps the typed go/ssa form of the scottyw/tetromino packages to JSON.
//
// It loads the packages from the working tree given by -repo on every run (nothing is cached or
// hand copied), with build tag "verif" on, and with mechanically generated stubs overlaid for the
// two packages that need cgo (gameboy/display, gameboy/speakers): every function body replaced by
// panic("stub"), unexported struct fields / functions / init dropped, unused imports dropped.
package main

import (
	"bytes"
	"encoding/json"
	"flag"
	"fmt"
	"go/ast"
	"go/constant"
	"go/format"
	"go/parser"
	"go/token"
	"go/types"
	"os"
	"path/filepath"
	"sort"
	"strings"

	"golang.org/x/tools/go/packages"
	"golang.org/x/tools/go/ssa"
	"golang.org/x/tools/go/ssa/ssautil"
)

const modPath = "github.com/scottyw/tetromino"

type typeTab struct {
	ids  map[string]int
	list []map[string]interface{}
}

func qual(p *types.Package) string { return p.Path() }

func (tt *typeTab) id(t types.Type) int {
	if t == nil {
		return -1
	}
	t = types.Unalias(t)
	key := types.TypeString(t, qual)
	if id, ok := tt.ids[key]; ok {
		return id
	}
	id := len(tt.list)
	tt.ids[key] = id
	m := map[string]interface{}{"id": id, "s": key}
	tt.list = append(tt.list, m)
	switch u := t.(type) {
	case *types.Basic:
		m["k"] = "basic"
		m["name"] = u.Name()
	case *types.Named:
		m["k"] = "named"
		if u.Obj().Pkg() != nil {
			m["name"] = u.Obj().Pkg().Path() + "." + u.Obj().Name()
		} else {
			m["name"] = u.Obj().Name()
		}
		m["under"] = tt.id(u.Underlying())
	case *types.Alias:
		m["k"] = "named"
		m["name"] = key
		m["under"] = tt.id(types.Unalias(u))
	case *types.Pointer:
		m["k"] = "ptr"
		m["elem"] = tt.id(u.Elem())
	case *types.Array:
		m["k"] = "array"
		m["elem"] = tt.id(u.Elem())
		m["len"] = u.Len()
	case *types.Slice:
		m["k"] = "slice"
		m["elem"] = tt.id(u.Elem())
	case *types.Struct:
		m["k"] = "struct"
		fs := []map[string]interface{}{}
		for i := 0; i < u.NumFields(); i++ {
			f := u.Field(i)
			fs = append(fs, map[string]interface{}{"name": f.Name(), "t": tt.id(f.Type()), "emb": f.Embedded()})
		}
		m["fields"] = fs
	case *types.Signature:
		m["k"] = "func"
		ps := []int{}
		for i := 0; i < u.Params().Len(); i++ {
			ps = append(ps, tt.id(u.Params().At(i).Type()))
		}
		rs := []int{}
		for i := 0; i < u.Results().Len(); i++ {
			rs = append(rs, tt.id(u.Results().At(i).Type()))
		}
		m["params"] = ps
		m["results"] = rs
	case *types.Interface:
		m["k"] = "iface"
		ms := []string{}
		for i := 0; i < u.NumMethods(); i++ {
			ms = append(ms, u.Method(i).Name())
		}
		m["methods"] = ms
	case *types.Chan:
		m["k"] = "chan"
		m["elem"] = tt.id(u.Elem())
	case *types.Map:
		m["k"] = "map"
		m["key"] = tt.id(u.Key())
		m["elem"] = tt.id(u.Elem())
	case *types.Tuple:
		m["k"] = "tuple"
		es := []int{}
		for i := 0; i < u.Len(); i++ {
			es = append(es, tt.id(u.At(i).Type()))
		}
		m["elems"] = es
	default:
		m["k"] = "other"
	}
	return id
}

type exporter struct {
	tt    *typeTab
	fset  *token.FileSet
	funcs map[string]interface{}
	seen  map[*ssa.Function]bool
	queue []*ssa.Function
}

func (e *exporter) val(fn *ssa.Function, v ssa.Value) interface{} {
	if v == nil {
		return nil
	}
	switch x := v.(type) {
	case *ssa.Const:
		m := map[string]interface{}{"k": "const", "t": e.tt.id(x.Type())}
		if x.Value == nil {
			m["ck"] = "nil"
		} else {
			switch x.Value.Kind() {
			case constant.Bool:
				m["ck"] = "bool"
				m["v"] = constant.BoolVal(x.Value)
			case constant.String:
				m["ck"] = "string"
				m["v"] = constant.StringVal(x.Value)
			case constant.Int:
				m["ck"] = "int"
				m["v"] = x.Value.ExactString()
			case constant.Float:
				m["ck"] = "float"
				f, _ := constant.Float64Val(x.Value)
				m["v"] = x.Value.ExactString()
				m["f"] = f
			default:
				m["ck"] = "other"
				m["v"] = x.Value.ExactString()
			}
		}
		return m
	case *ssa.Parameter:
		for i, p := range fn.Params {
			if p == x {
				return map[string]interface{}{"k": "param", "i": i}
			}
		}
		panic("param not found")
	case *ssa.FreeVar:
		for i, p := range fn.FreeVars {
			if p == x {
				return map[string]interface{}{"k": "fv", "i": i}
			}
		}
		panic("freevar not found")
	case *ssa.Global:
		return map[string]interface{}{"k": "global", "n": x.Pkg.Pkg.Path() + "." + x.Name()}
	case *ssa.Function:
		e.enqueue(x)
		return map[string]interface{}{"k": "func", "n": x.String()}
	case *ssa.Builtin:
		return map[string]interface{}{"k": "builtin", "n": x.Name()}
	default:
		return map[string]interface{}{"k": "reg", "n": v.Name()}
	}
}

func (e *exporter) enqueue(f *ssa.Function) {
	if f == nil || e.seen[f] {
		return
	}
	e.seen[f] = true
	e.queue = append(e.queue, f)
}

func (e *exporter) vals(fn *ssa.Function, vs []ssa.Value) []interface{} {
	out := []interface{}{}
	for _, v := range vs {
		out = append(out, e.val(fn, v))
	}
	return out
}

func (e *exporter) call(fn *ssa.Function, c *ssa.CallCommon) map[string]interface{} {
	m := map[string]interface{}{}
	if c.IsInvoke() {
		m["invoke"] = c.Method.Name()
		m["recv"] = e.val(fn, c.Value)
		m["recvt"] = e.tt.id(c.Value.Type())
	} else {
		m["fn"] = e.val(fn, c.Value)
		if sc := c.StaticCallee(); sc != nil {
			m["static"] = sc.String()
			e.enqueue(sc)
		}
	}
	m["args"] = e.vals(fn, c.Args)
	return m
}

func (e *exporter) instr(fn *ssa.Function, in ssa.Instruction) map[string]interface{} {
	m := map[string]interface{}{}
	if v, ok := in.(ssa.Value); ok {
		m["n"] = v.Name()
		m["t"] = e.tt.id(v.Type())
	}
	if p := in.Pos(); p.IsValid() {
		pos := e.fset.Position(p)
		m["pos"] = fmt.Sprintf("%s:%d", filepath.Base(pos.Filename), pos.Line)
	}
	switch x := in.(type) {
	case *ssa.Alloc:
		m["op"] = "Alloc"
		m["heap"] = x.Heap
		m["comment"] = x.Comment
	case *ssa.BinOp:
		m["op"] = "BinOp"
		m["bop"] = x.Op.String()
		m["x"] = e.val(fn, x.X)
		m["y"] = e.val(fn, x.Y)
		m["xt"] = e.tt.id(x.X.Type())
		m["yt"] = e.tt.id(x.Y.Type())
	case *ssa.UnOp:
		m["op"] = "UnOp"
		m["uop"] = x.Op.String()
		m["x"] = e.val(fn, x.X)
		m["xt"] = e.tt.id(x.X.Type())
		m["commaok"] = x.CommaOk
	case *ssa.Call:
		m["op"] = "Call"
		m["call"] = e.call(fn, &x.Call)
	case *ssa.ChangeInterface:
		m["op"] = "ChangeInterface"
		m["x"] = e.val(fn, x.X)
	case *ssa.ChangeType:
		m["op"] = "ChangeType"
		m["x"] = e.val(fn, x.X)
	case *ssa.Convert:
		m["op"] = "Convert"
		m["x"] = e.val(fn, x.X)
		m["xt"] = e.tt.id(x.X.Type())
	case *ssa.MultiConvert:
		m["op"] = "Convert"
		m["x"] = e.val(fn, x.X)
		m["xt"] = e.tt.id(x.X.Type())
	case *ssa.SliceToArrayPointer:
		m["op"] = "SliceToArrayPointer"
		m["x"] = e.val(fn, x.X)
	case *ssa.Extract:
		m["op"] = "Extract"
		m["x"] = e.val(fn, x.Tuple)
		m["idx"] = x.Index
	case *ssa.Field:
		m["op"] = "Field"
		m["x"] = e.val(fn, x.X)
		m["idx"] = x.Field
		m["xt"] = e.tt.id(x.X.Type())
	case *ssa.FieldAddr:
		m["op"] = "FieldAddr"
		m["x"] = e.val(fn, x.X)
		m["idx"] = x.Field
		m["xt"] = e.tt.id(x.X.Type())
	case *ssa.Index:
		m["op"] = "Index"
		m["x"] = e.val(fn, x.X)
		m["i"] = e.val(fn, x.Index)
		m["xt"] = e.tt.id(x.X.Type())
		m["it"] = e.tt.id(x.Index.Type())
	case *ssa.IndexAddr:
		m["op"] = "IndexAddr"
		m["x"] = e.val(fn, x.X)
		m["i"] = e.val(fn, x.Index)
		m["xt"] = e.tt.id(x.X.Type())
		m["it"] = e.tt.id(x.Index.Type())
	case *ssa.Lookup:
		m["op"] = "Lookup"
		m["x"] = e.val(fn, x.X)
		m["i"] = e.val(fn, x.Index)
		m["xt"] = e.tt.id(x.X.Type())
		m["commaok"] = x.CommaOk
	case *ssa.MakeChan:
		m["op"] = "MakeChan"
		m["size"] = e.val(fn, x.Size)
	case *ssa.MakeClosure:
		m["op"] = "MakeClosure"
		f := x.Fn.(*ssa.Function)
		e.enqueue(f)
		m["fn"] = f.String()
		m["bindings"] = e.vals(fn, x.Bindings)
	case *ssa.MakeInterface:
		m["op"] = "MakeInterface"
		m["x"] = e.val(fn, x.X)
		m["xt"] = e.tt.id(x.X.Type())
	case *ssa.MakeMap:
		m["op"] = "MakeMap"
	case *ssa.MakeSlice:
		m["op"] = "MakeSlice"
		m["len"] = e.val(fn, x.Len)
		m["cap"] = e.val(fn, x.Cap)
	case *ssa.Next:
		m["op"] = "Next"
		m["x"] = e.val(fn, x.Iter)
	case *ssa.Phi:
		m["op"] = "Phi"
		m["edges"] = e.vals(fn, x.Edges)
		m["comment"] = x.Comment
	case *ssa.Range:
		m["op"] = "Range"
		m["x"] = e.val(fn, x.X)
	case *ssa.Select:
		m["op"] = "Select"
		m["blocking"] = x.Blocking
		sts := []map[string]interface{}{}
		for _, s := range x.States {
			sts = append(sts, map[string]interface{}{"dir": int(s.Dir), "chan": e.val(fn, s.Chan), "send": e.val(fn, s.Send)})
		}
		m["states"] = sts
	case *ssa.Slice:
		m["op"] = "Slice"
		m["x"] = e.val(fn, x.X)
		m["xt"] = e.tt.id(x.X.Type())
		m["low"] = e.val(fn, x.Low)
		m["high"] = e.val(fn, x.High)
		m["max"] = e.val(fn, x.Max)
	case *ssa.TypeAssert:
		m["op"] = "TypeAssert"
		m["x"] = e.val(fn, x.X)
		m["at"] = e.tt.id(x.AssertedType)
		m["commaok"] = x.CommaOk
	case *ssa.DebugRef:
		return nil
	case *ssa.Defer:
		m["op"] = "Defer"
		m["call"] = e.call(fn, &x.Call)
	case *ssa.Go:
		m["op"] = "Go"
		m["call"] = e.call(fn, &x.Call)
	case *ssa.If:
		m["op"] = "If"
		m["cond"] = e.val(fn, x.Cond)
	case *ssa.Jump:
		m["op"] = "Jump"
	case *ssa.MapUpdate:
		m["op"] = "MapUpdate"
	case *ssa.Panic:
		m["op"] = "Panic"
		m["x"] = e.val(fn, x.X)
	case *ssa.Return:
		m["op"] = "Return"
		m["results"] = e.vals(fn, x.Results)
	case *ssa.RunDefers:
		m["op"] = "RunDefers"
	case *ssa.Send:
		m["op"] = "Send"
		m["chan"] = e.val(fn, x.Chan)
		m["x"] = e.val(fn, x.X)
	case *ssa.Store:
		m["op"] = "Store"
		m["addr"] = e.val(fn, x.Addr)
		m["val"] = e.val(fn, x.Val)
		m["vt"] = e.tt.id(x.Val.Type())
	default:
		m["op"] = fmt.Sprintf("Unknown:%T", in)
	}
	return m
}

func inScope(f *ssa.Function) bool {
	if f.Pkg != nil {
		return strings.HasPrefix(f.Pkg.Pkg.Path(), modPath)
	}
	// bound-method wrappers and thunks have no Pkg; look at the object
	if o := f.Object(); o != nil && o.Pkg() != nil {
		return strings.HasPrefix(o.Pkg().Path(), modPath)
	}
	if f.Parent() != nil {
		return inScope(f.Parent())
	}
	if f.Synthetic != "" && (strings.Contains(f.String(), modPath)) {
		return true
	}
	return false
}

func (e *exporter) function(f *ssa.Function) {
	m := map[string]interface{}{"name": f.String(), "short": f.Name(), "synthetic": f.Synthetic}
	if f.Pkg != nil {
		m["pkg"] = f.Pkg.Pkg.Path()
	}
	if f.Parent() != nil {
		m["parent"] = f.Parent().String()
	}
	if p := f.Pos(); p.IsValid() {
		pos := e.fset.Position(p)
		m["pos"] = fmt.Sprintf("%s:%d", pos.Filename, pos.Line)
		m["file"] = pos.Filename
		m["line"] = pos.Line
	}
	ps := []map[string]interface{}{}
	for _, p := range f.Params {
		ps = append(ps, map[string]interface{}{"name": p.Name(), "t": e.tt.id(p.Type())})
	}
	m["params"] = ps
	fv := []map[string]interface{}{}
	for _, p := range f.FreeVars {
		fv = append(fv, map[string]interface{}{"name": p.Name(), "t": e.tt.id(p.Type())})
	}
	m["freevars"] = fv
	rs := []int{}
	res := f.Signature.Results()
	for i := 0; i < res.Len(); i++ {
		rs = append(rs, e.tt.id(res.At(i).Type()))
	}
	m["results"] = rs
	m["hasrecv"] = f.Signature.Recv() != nil
	m["external"] = len(f.Blocks) == 0
	if !inScope(f) {
		m["external"] = true
		m["outofscope"] = true
		e.funcs[f.String()] = m
		return
	}
	blocks := []map[string]interface{}{}
	for _, b := range f.Blocks {
		bm := map[string]interface{}{"idx": b.Index, "comment": b.Comment}
		succs := []int{}
		for _, s := range b.Succs {
			succs = append(succs, s.Index)
		}
		preds := []int{}
		for _, s := range b.Preds {
			preds = append(preds, s.Index)
		}
		bm["succs"] = succs
		bm["preds"] = preds
		ins := []map[string]interface{}{}
		for _, in := range b.Instrs {
			if im := e.instr(f, in); im != nil {
				ins = append(ins, im)
			}
		}
		bm["instrs"] = ins
		blocks = append(blocks, bm)
	}
	m["blocks"] = blocks
	// source names of range keys (pre-order), so that a loop invariant written over `i` survives the
	// rewrite of `for i := 0; i < n; i++` as `for i := range s` (go/ssa names the phi "rangeindex")
	if syn := f.Syntax(); syn != nil {
		var body *ast.BlockStmt
		switch x := syn.(type) {
		case *ast.FuncDecl:
			body = x.Body
		case *ast.FuncLit:
			body = x.Body
		}
		keys := []string{}
		if body != nil {
			ast.Inspect(body, func(n ast.Node) bool {
				switch x := n.(type) {
				case *ast.FuncLit:
					return false
				case *ast.RangeStmt:
					k := ""
					if id, ok := x.Key.(*ast.Ident); ok && id.Name != "_" {
						k = id.Name
					}
					keys = append(keys, k)
				}
				return true
			})
		}
		m["rangekeys"] = keys
	}
	for _, af := range f.AnonFuncs {
		e.enqueue(af)
	}
	e.funcs[f.String()] = m
}

// stubFile produces the mechanical stub of one source file of a cgo-dependent package.
func stubFile(fset *token.FileSet, src []byte, name string) ([]byte, error) {
	f, err := parser.ParseFile(fset, name, src, parser.SkipObjectResolution)
	if err != nil {
		return nil, err
	}
	var decls []ast.Decl
	for _, d := range f.Decls {
		switch x := d.(type) {
		case *ast.FuncDecl:
			if !x.Name.IsExported() {
				continue
			}
			x.Body = &ast.BlockStmt{List: []ast.Stmt{&ast.ExprStmt{X: &ast.CallExpr{Fun: ast.NewIdent("panic"), Args: []ast.Expr{&ast.BasicLit{Kind: token.STRING, Value: `"stub"`}}}}}}
			x.Doc = nil
			decls = append(decls, x)
		case *ast.GenDecl:
			if x.Tok == token.IMPORT {
				decls = append(decls, x)
				continue
			}
			if x.Tok != token.TYPE {
				continue // package-level vars/consts of these two packages are not referenced from outside
			}
			var specs []ast.Spec
			for _, s := range x.Specs {
				ts := s.(*ast.TypeSpec)
				if !ts.Name.IsExported() {
					continue
				}
				if st, ok := ts.Type.(*ast.StructType); ok {
					var keep []*ast.Field
					for _, fl := range st.Fields.List {
						var names []*ast.Ident
						for _, n := range fl.Names {
							if n.IsExported() {
								names = append(names, n)
							}
						}
						if len(names) > 0 {
							fl.Names = names
							keep = append(keep, fl)
						}
					}
					st.Fields.List = keep
				}
				specs = append(specs, ts)
			}
			if len(specs) > 0 {
				x.Specs = specs
				x.Doc = nil
				decls = append(decls, x)
			}
		}
	}
	f.Decls = decls
	f.Comments = nil
	// drop unused imports
	used := map[string]bool{}
	ast.Inspect(f, func(n ast.Node) bool {
		if se, ok := n.(*ast.SelectorExpr); ok {
			if id, ok := se.X.(*ast.Ident); ok {
				used[id.Name] = true
			}
		}
		return true
	})
	for _, d := range f.Decls {
		gd, ok := d.(*ast.GenDecl)
		if !ok || gd.Tok != token.IMPORT {
			continue
		}
		var specs []ast.Spec
		for _, s := range gd.Specs {
			is := s.(*ast.ImportSpec)
			path := strings.Trim(is.Path.Value, `"`)
			nm := path[strings.LastIndex(path, "/")+1:]
			if is.Name != nil {
				nm = is.Name.Name
			}
			if used[nm] {
				if strings.Contains(path, "go-gl") || strings.Contains(path, "portaudio") {
					return nil, fmt.Errorf("stub of %s would still import cgo package %s", name, path)
				}
				specs = append(specs, is)
			}
		}
		gd.Specs = specs
	}
	var imports []*ast.ImportSpec
	var nd []ast.Decl
	for _, d := range f.Decls {
		if gd, ok := d.(*ast.GenDecl); ok && gd.Tok == token.IMPORT {
			if len(gd.Specs) == 0 {
				continue
			}
			for _, s := range gd.Specs {
				imports = append(imports, s.(*ast.ImportSpec))
			}
		}
		nd = append(nd, d)
	}
	f.Decls = nd
	f.Imports = imports
	var buf bytes.Buffer
	if err := format.Node(&buf, fset, f); err != nil {
		return nil, err
	}
	return buf.Bytes(), nil
}

func main() {
	repo := flag.String("repo", "/repo", "path of the scottyw/tetromino working tree")
	out := flag.String("o", "-", "output file")
	withGameboy := flag.Bool("gameboy", true, "also load package gameboy (needs display/speakers stubs)")
	flag.Parse()

	overlay := map[string][]byte{}
	stubbed := []string{}
	fsetStub := token.NewFileSet()
	for _, pkg := range []string{"display", "speakers"} {
		dir := filepath.Join(*repo, "gameboy", pkg)
		ents, err := os.ReadDir(dir)
		if err != nil {
			fmt.Fprintln(os.Stderr, "ssaexport:", err)
			os.Exit(2)
		}
		for _, en := range ents {
			if !strings.HasSuffix(en.Name(), ".go") || strings.HasSuffix(en.Name(), "_test.go") {
				continue
			}
			p := filepath.Join(dir, en.Name())
			src, err := os.ReadFile(p)
			if err != nil {
				fmt.Fprintln(os.Stderr, "ssaexport:", err)
				os.Exit(2)
			}
			st, err := stubFile(fsetStub, src, p)
			if err != nil {
				fmt.Fprintln(os.Stderr, "ssaexport: stub:", err)
				os.Exit(2)
			}
			overlay[p] = st
			stubbed = append(stubbed, p)
		}
	}

	cfg := &packages.Config{
		Mode:       packages.LoadAllSyntax,
		Dir:        *repo,
		Overlay:    overlay,
		BuildFlags: []string{"-tags=verif"},
		Env:        append(os.Environ(), "GOFLAGS=-mod=mod", "GOPROXY=off", "GOSUMDB=off", "GOTOOLCHAIN=local", "CGO_ENABLED=0"),
	}
	pats := []string{}
	for _, p := range []string{"audio", "controller", "cpu", "interrupts", "memory", "oam", "ppu", "serial", "timer"} {
		pats = append(pats, modPath+"/gameboy/"+p)
	}
	if *withGameboy {
		pats = append(pats, modPath+"/gameboy")
	}
	pkgs, err := packages.Load(cfg, pats...)
	if err != nil {
		fmt.Fprintln(os.Stderr, "ssaexport: load:", err)
		os.Exit(2)
	}
	nerr := 0
	packages.Visit(pkgs, nil, func(p *packages.Package) {
		if !strings.HasPrefix(p.PkgPath, modPath) {
			return
		}
		for _, e := range p.Errors {
			fmt.Fprintln(os.Stderr, "ssaexport: error:", e)
			nerr++
		}
	})
	if nerr > 0 {
		os.Exit(3)
	}
	prog, spkgs := ssautil.AllPackages(pkgs, ssa.InstantiateGenerics)
	prog.Build()

	e := &exporter{tt: &typeTab{ids: map[string]int{}}, fset: prog.Fset, funcs: map[string]interface{}{}, seen: map[*ssa.Function]bool{}}
	globals := map[string]interface{}{}
	methods := map[string]map[string]string{}
	pkgnames := []string{}
	files := map[string][]string{}
	for i, sp := range spkgs {
		if sp == nil || !strings.HasPrefix(sp.Pkg.Path(), modPath) {
			continue
		}
		pkgnames = append(pkgnames, sp.Pkg.Path())
		for _, gf := range pkgs[i].GoFiles {
			files[sp.Pkg.Path()] = append(files[sp.Pkg.Path()], gf)
		}
		names := []string{}
		for n := range sp.Members {
			names = append(names, n)
		}
		sort.Strings(names)
		for _, n := range names {
			switch mem := sp.Members[n].(type) {
			case *ssa.Function:
				e.enqueue(mem)
			case *ssa.Global:
				globals[sp.Pkg.Path()+"."+mem.Name()] = map[string]interface{}{"t": e.tt.id(mem.Type().(*types.Pointer).Elem())}
			case *ssa.Type:
				T := mem.Type()
				for _, tt := range []types.Type{T, types.NewPointer(T)} {
					ms := prog.MethodSets.MethodSet(tt)
					mm := map[string]string{}
					for j := 0; j < ms.Len(); j++ {
						f := prog.MethodValue(ms.At(j))
						if f != nil {
							e.enqueue(f)
							mm[ms.At(j).Obj().Name()] = f.String()
						}
					}
					methods[types.TypeString(tt, qual)] = mm
				}
			}
		}
	}
	for len(e.queue) > 0 {
		f := e.queue[0]
		e.queue = e.queue[1:]
		e.function(f)
	}
	outm := map[string]interface{}{
		"types":   e.tt.list,
		"funcs":   e.funcs,
		"globals": globals,
		"methods": methods,
		"pkgs":    pkgnames,
		"files":   files,
		"stubbed": stubbed,
		"module":  modPath,
	}
	var w *os.File = os.Stdout
	if *out != "-" {
		w, err = os.Create(*out)
		if err != nil {
			fmt.Fprintln(os.Stderr, "ssaexport:", err)
			os.Exit(2)
		}
		defer w.Close()
	}
	enc := json.NewEncoder(w)
	if err := enc.Encode(outm); err != nil {
		fmt.Fprintln(os.Stderr, "ssaexport:", err)
		os.Exit(2)
	}
}
