#!/usr/bin/env python3
"""Writes /verif/baseline_obligations.json from the obligation lists of the last clean run (cache/<id>.obligations.json):
the names of the obligations anchored on exported entry points and of the property-level lemmas. A later run in which one of
them is no longer generated (entry point renamed or removed, contract deleted) reports it as a violation instead of passing
with fewer obligations. Obligations of unexported helpers are left out on purpose: inlining or renaming a helper is harmless."""
import json, os, re, glob
ROOT = os.path.dirname(os.path.dirname(os.path.abspath(__file__)))
out = {}
for p in sorted(glob.glob(os.path.join(ROOT, "cache", "*.obligations.json"))):
    prop = os.path.basename(p).split(".")[0]
    names = json.load(open(p))
    keep = []
    for n in names:
        body = n.split("/", 1)[1]
        if re.search(r"#(no-panic|requires|loop-|order|run):", body):
            continue          # site-level obligations depend on the code's shape
        m = re.match(r"\(\*?[\w.]+\)\.([A-Za-z_]\w*)", body) or re.match(r"[\w]+\.([A-Za-z_]\w*)", body)
        if body.startswith(("lemma:", "scan:", "spec:", "determinate:")):
            if "determinate:" in body and re.search(r"\)\.[a-z]", body):
                continue
            keep.append(n)
        elif m and m.group(1)[:1].isupper():
            keep.append(n)
    out[prop] = {"obligations": keep}
json.dump(out, open(os.path.join(ROOT, "baseline_obligations.json"), "w"), indent=0, sort_keys=True)
print({k: len(v["obligations"]) for k, v in out.items()})
