#!/usr/bin/env python3
"""Regenerates /verif/MANIFEST.json from the property modules that exist under /verif/props (each exports
MANIFEST = dict(level=..., text=..., note=..., technique=..., design_ref=...)) and NOT_APPLICABLE below."""
import json, os, importlib, sys, subprocess

ROOT = os.path.dirname(os.path.dirname(os.path.abspath(__file__)))
sys.path.insert(0, ROOT)

NOT_CLAIMED_REASON = "not claimed yet: the contracts/lemmas for this property are not built (see DESIGN.md section 4); nothing is asserted about it"


def main():
    props = [json.loads(l)["id"] for l in open(os.path.join(ROOT, "properties.jsonl"))]
    checks, na = [], []
    extra_na = {}
    nap = os.path.join(ROOT, "not_applicable.json")
    if os.path.exists(nap):
        extra_na = json.load(open(nap))
    for pid in props:
        path = os.path.join(ROOT, "props", pid + ".py")
        m = None
        if os.path.exists(path) and pid not in extra_na:
            src = open(path).read()
            ns = {}
            # only read the MANIFEST literal, without importing z3
            start = src.find("MANIFEST = ")
            if start >= 0:
                end = src.find("\n}\n", start)
                exec(src[start:end + 3], ns)
                m = ns["MANIFEST"]
        if m is None:
            na.append({"property_id": pid, "reason": extra_na.get(pid, NOT_CLAIMED_REASON)})
            continue
        checks.append({
            "property_id": pid,
            "quick_cmd": "./check %s --tier quick" % pid,
            "thorough_cmd": "./check %s --tier thorough" % pid,
            "evidence_file": "/verif/evidence/%s.json" % pid,
            "replay_cmd_template": "./check --replay {path}",
            "engine": "govc",
            "level_claimed": {"category": m["level"], "text": m["text"], "design_ref": m.get("design_ref", "DESIGN.md section 4 " + pid)},
            "level_note": m["note"],
            "technique": m.get("technique", "contracts on the real go/ssa + own VC generator + SMT (z3/cvc5)"),
        })
    commits = subprocess.run(["git", "-C", "/repo", "log", "--format=%h %s"], capture_output=True, text=True).stdout.splitlines()
    hooks = [c.split()[0] for c in commits if c.split(" ", 1)[1].startswith("verif:")]
    man = {
        "version": 1,
        "setup_cmd": "cd /verif/tools/ssaexport && GOFLAGS=-mod=mod GOPROXY=off GOSUMDB=off GOTOOLCHAIN=local go build -o /verif/bin/ssaexport . && mkdir -p /verif/cache /verif/evidence /verif/replays",
        "hooks": {
            "guard": "verif",
            "enable": "-tags verif: the only guarded files are comment-only contract files gameboy/<pkg>/contracts_verif.go (//go:build verif); nothing executable is added, the checks read them as text",
            "baseline_off_cmd": "cd /repo && GOFLAGS=-mod=mod GOPROXY=off GOSUMDB=off go test -vet=off -count=1 ./gameboy/cpu/ ./gameboy/timer/",
            "source_commits": hooks,
            "add_only": True,
        },
        "engines": [{"name": "govc", "path": "/verif/engine", "serves_properties": [c["property_id"] for c in checks],
                     "kind_free_text": "go/ssa (exported from /repo's working tree on every run) -> symbolic execution / weakest-precondition style VC generator with contracts, frames, loop invariants -> SMT (z3py 5.1.0 in-process, race of z3 4.8.12 / z3 5.1.0 / cvc5 on undecided queries) -> counterexample replay on the real code via go test -overlay"}],
        "checks": checks,
        "not_applicable": na,
        "notes": "Contract-based deductive verification of the real code. See DESIGN.md (section 0a first). known_findings.json lists recorded and fixed defects. Every check also discharges the callee contracts its own run used (engine/closure.py), so a verdict does not rest on another property's check.",
    }
    with open(os.path.join(ROOT, "MANIFEST.json"), "w") as f:
        json.dump(man, f, indent=1)
    print("MANIFEST.json: %d checks, %d not claimed" % (len(checks), len(na)))


if __name__ == "__main__":
    main()
