#!/bin/sh
# Usage: build.sh <repo-dir> <output-binary>
# Builds romrunner against the tetromino checkout at <repo-dir>. A temporary
# module (go.mod with the replace pointing at <repo-dir>) is created in a
# scratch dir under /var/tmp and removed afterwards; nothing is written into
# <repo-dir> or into this directory.
set -eu
if [ $# -ne 2 ]; then
    echo "usage: $0 <repo-dir> <output-binary>" >&2
    exit 2
fi
here=$(cd "$(dirname "$0")" && pwd)
repo=$(cd "$1" && pwd)
case "$2" in
    /*) out=$2 ;;
    *)  out=$(pwd)/$2 ;;
esac
if [ ! -f "$repo/go.mod" ]; then
    echo "$0: $repo does not look like a Go module (no go.mod)" >&2
    exit 2
fi

export GOFLAGS=-mod=mod GOPROXY=off GOSUMDB=off GOTOOLCHAIN=local

scratch=$(mktemp -d /var/tmp/romrunner-build.XXXXXX)
trap 'rm -rf "$scratch"' EXIT INT TERM

cp "$here/main.go" "$scratch/main.go"
if [ -f "$repo/go.sum" ]; then
    cp "$repo/go.sum" "$scratch/go.sum"
elif [ -f "$here/go.sum" ]; then
    cp "$here/go.sum" "$scratch/go.sum"
fi
cat > "$scratch/go.mod" <<MOD
module verif/romrunner

go 1.23

require github.com/scottyw/tetromino v0.0.0

replace github.com/scottyw/tetromino => $repo
MOD

(cd "$scratch" && go build -o "$out" .)
