// romrunner is a headless regression runner for the tetromino Game Boy
// emulator's blargg and mooneye test ROMs.
//
// Parent mode:  romrunner -list roms.txt [-json out.json] [-j N] [-repo /repo]
// Child mode:   romrunner -one <rom path> -mode serial|ram|mooneye [-frames N]
//
// The parent runs every ROM in its own child process (same binary) so that a
// panic or an os.Exit inside the emulator is reported as CRASH for that ROM
// only. All limits are in emulated time (frames), so results do not depend on
// machine load; a generous wall-clock guard only protects against a hung child.
package main

import (
	"bufio"
	"bytes"
	"context"
	"encoding/json"
	"flag"
	"fmt"
	"os"
	"os/exec"
	"path/filepath"
	"reflect"
	"strings"
	"sync"
	"time"

	"github.com/scottyw/tetromino/gameboy/audio"
	"github.com/scottyw/tetromino/gameboy/controller"
	"github.com/scottyw/tetromino/gameboy/cpu"
	"github.com/scottyw/tetromino/gameboy/interrupts"
	"github.com/scottyw/tetromino/gameboy/memory"
	"github.com/scottyw/tetromino/gameboy/oam"
	"github.com/scottyw/tetromino/gameboy/ppu"
	"github.com/scottyw/tetromino/gameboy/serial"
	"github.com/scottyw/tetromino/gameboy/timer"
)

const (
	cyclesPerFrame = 17556 // machine cycles per LCD frame

	// Emulated-time limits (60 frames ~ 1 emulated second).
	mooneyeFrames = 60 * 60  // 60 emulated seconds
	blarggFrames  = 100 * 60 // 100 emulated seconds (cpu_instrs needs ~55s)

	resultPrefix = "RESULT "
)

const (
	statusPass    = "PASS"
	statusFail    = "FAIL"
	statusCrash   = "CRASH"
	statusTimeout = "TIMEOUT"
)

func usage(msg string) {
	fmt.Fprintln(os.Stderr, "romrunner:", msg)
	fmt.Fprintln(os.Stderr, "usage: romrunner -list <file> [-json out.json] [-j N] [-repo dir] [-frames N] [-wall secs] [-v]")
	fmt.Fprintln(os.Stderr, "       romrunner -one <rom> -mode serial|ram|mooneye [-repo dir] [-frames N]")
	os.Exit(2)
}

func main() {
	list := flag.String("list", "", "file listing ROM paths (relative to <repo>/gameboy) with optional mode column")
	jsonOut := flag.String("json", "", "write JSON map path -> status to this file")
	workers := flag.Int("j", 16, "number of parallel child processes")
	repo := flag.String("repo", "/repo", "repository root (ROMs are looked up under <repo>/gameboy)")
	one := flag.String("one", "", "child mode: run this single ROM")
	mode := flag.String("mode", "", "child mode: judging mode (serial, ram or mooneye)")
	frames := flag.Int("frames", 0, "override the emulated frame limit (0 = per-mode default)")
	wall := flag.Int("wall", 600, "wall-clock guard per ROM in seconds (hung child => TIMEOUT)")
	verbose := flag.Bool("v", false, "print child stderr/stdout tail for CRASH results")
	flag.Parse()
	if flag.NArg() != 0 {
		usage("unexpected arguments: " + strings.Join(flag.Args(), " "))
	}

	switch {
	case *one != "" && *list != "":
		usage("-one and -list are mutually exclusive")
	case *one != "":
		if !validMode(*mode) {
			usage("-one needs -mode serial|ram|mooneye")
		}
		runOne(resolve(*repo, *one), *mode, *frames)
	case *list != "":
		if *workers < 1 {
			usage("-j must be >= 1")
		}
		runList(*list, *jsonOut, *repo, *workers, *frames, *wall, *verbose)
	default:
		usage("need -list or -one")
	}
}

func validMode(m string) bool {
	return m == "serial" || m == "ram" || m == "mooneye"
}

func resolve(repo, path string) string {
	if filepath.IsAbs(path) {
		return path
	}
	return filepath.Join(repo, "gameboy", path)
}

// ---------------------------------------------------------------------------
// Child: run one ROM in this process and print "RESULT <status> frames=<n>".
// Any panic / os.Exit inside the emulator simply kills this process; the
// parent turns a missing RESULT line into CRASH.

func runOne(romPath, mode string, limit int) {
	rom, err := os.ReadFile(romPath)
	if err != nil {
		fmt.Fprintln(os.Stderr, "romrunner: cannot read ROM:", err)
		os.Exit(3)
	}
	if limit <= 0 {
		if mode == "mooneye" {
			limit = mooneyeFrames
		} else {
			limit = blarggFrames
		}
	}

	// Wire the machine exactly as gameboy.New does (headless, no speakers).
	serialOut := &bytes.Buffer{}
	i := interrupts.New()
	o := oam.New()
	a := audio.New(nil, nil)
	p := ppu.New(i, o, false)
	s := serial.New(serialOut)
	t := timer.New()
	c := controller.New()
	m := memory.New(rom, i, o, p, c, s, t, a)
	cp := cpu.New(i, o, false, m)
	cp.Initialize()

	status := statusTimeout
	frame := 0
loop:
	for frame < limit {
		// Same as gameboy.runFrame.
		for mtick := 0; mtick < cyclesPerFrame; mtick++ {
			cp.ExecuteMachineCycle()
			p.EndMachineCycle()
			m.EndMachineCycle()
			a.EndMachineCycle()
			if t.EndMachineCycle() {
				i.RequestTimer()
			}
		}
		frame++

		switch mode {
		case "mooneye":
			if regs := cp.CheckMooneye(); regs != nil {
				if reflect.DeepEqual(regs, []uint8{3, 5, 8, 13, 21, 34}) {
					status = statusPass
				} else {
					status = statusFail
				}
				break loop
			}
		default:
			var text string
			if mode == "ram" {
				text = string(m.DumpRAM())
			} else {
				text = serialOut.String()
			}
			if strings.Contains(text, "Passed") {
				status = statusPass
				break loop
			}
			if strings.Contains(text, "Failed") {
				status = statusFail
				break loop
			}
		}
	}
	fmt.Printf("%s%s frames=%d\n", resultPrefix, status, frame)
}

// ---------------------------------------------------------------------------
// Parent

type entry struct {
	path string
	mode string
}

func readList(file string) []entry {
	f, err := os.Open(file)
	if err != nil {
		usage(err.Error())
	}
	defer f.Close()
	var entries []entry
	seen := map[string]bool{}
	sc := bufio.NewScanner(f)
	for n := 1; sc.Scan(); n++ {
		line := sc.Text()
		if k := strings.IndexByte(line, '#'); k >= 0 {
			line = line[:k]
		}
		fields := strings.Fields(line)
		if len(fields) == 0 {
			continue
		}
		e := entry{path: fields[0]}
		if len(fields) > 1 {
			e.mode = fields[1]
		} else if strings.Contains(e.path, "blargg") {
			e.mode = "serial"
		} else {
			e.mode = "mooneye"
		}
		if !validMode(e.mode) || len(fields) > 2 {
			usage(fmt.Sprintf("%s:%d: bad line %q", file, n, sc.Text()))
		}
		if seen[e.path] {
			usage(fmt.Sprintf("%s:%d: duplicate ROM %q", file, n, e.path))
		}
		seen[e.path] = true
		entries = append(entries, e)
	}
	if err := sc.Err(); err != nil {
		usage(err.Error())
	}
	return entries
}

type result struct {
	status string
	detail string // "frames=N" or the tail of the child's output on a crash
}

func runChild(self string, e entry, repo string, frames, wall int) result {
	ctx, cancel := context.WithTimeout(context.Background(), time.Duration(wall)*time.Second)
	defer cancel()
	args := []string{"-one", resolve(repo, e.path), "-mode", e.mode}
	if frames > 0 {
		args = append(args, "-frames", fmt.Sprint(frames))
	}
	cmd := exec.CommandContext(ctx, self, args...)
	var stdout, stderr bytes.Buffer
	cmd.Stdout = &stdout
	cmd.Stderr = &stderr
	err := cmd.Run()

	if ctx.Err() != nil {
		return result{statusTimeout, fmt.Sprintf("killed after %ds wall clock", wall)}
	}
	if err == nil {
		// Take the last RESULT line; the emulator itself may print to stdout.
		lines := strings.Split(stdout.String(), "\n")
		for k := len(lines) - 1; k >= 0; k-- {
			if rest, ok := strings.CutPrefix(lines[k], resultPrefix); ok {
				f := strings.Fields(rest)
				if len(f) > 0 {
					switch f[0] {
					case statusPass, statusFail, statusTimeout:
						return result{f[0], strings.Join(f[1:], " ")}
					}
				}
			}
		}
		return result{statusCrash, "child exited 0 without a result"}
	}
	return result{statusCrash, fmt.Sprintf("%v: %s", err, head(stderr.String()+stdout.String(), 300))}
}

// head returns the start of the child's output (the panic message / fatal
// line comes first, the goroutine dump after it) on a single line.
func head(s string, n int) string {
	s = strings.TrimSpace(s)
	if len(s) > n {
		s = s[:n] + "..."
	}
	return strings.ReplaceAll(s, "\n", " | ")
}

func runList(listFile, jsonOut, repo string, workers, frames, wall int, verbose bool) {
	entries := readList(listFile)
	self, err := os.Executable()
	if err != nil {
		usage("cannot find own executable: " + err.Error())
	}

	start := time.Now()
	results := make([]result, len(entries))
	jobs := make(chan int)
	var wg sync.WaitGroup
	for w := 0; w < workers; w++ {
		wg.Add(1)
		go func() {
			defer wg.Done()
			for k := range jobs {
				results[k] = runChild(self, entries[k], repo, frames, wall)
			}
		}()
	}
	for k := range entries {
		jobs <- k
	}
	close(jobs)
	wg.Wait()
	elapsed := time.Since(start)

	counts := map[string]int{}
	statuses := map[string]string{}
	for k, e := range entries {
		r := results[k]
		counts[r.status]++
		statuses[e.path] = r.status
		fmt.Printf("%s %s\n", r.status, e.path)
		if verbose && r.detail != "" {
			fmt.Printf("    %s\n", r.detail)
		}
	}
	fmt.Printf("SUMMARY total=%d pass=%d fail=%d crash=%d timeout=%d wall=%.1fs workers=%d\n",
		len(entries), counts[statusPass], counts[statusFail], counts[statusCrash], counts[statusTimeout],
		elapsed.Seconds(), workers)

	if jsonOut != "" {
		data, err := json.MarshalIndent(statuses, "", "  ")
		if err == nil {
			err = os.WriteFile(jsonOut, append(data, '\n'), 0o644)
		}
		if err != nil {
			fmt.Fprintln(os.Stderr, "romrunner: cannot write JSON:", err)
		}
	}
}
