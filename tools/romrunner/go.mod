module verif/romrunner

go 1.23

require github.com/scottyw/tetromino v0.0.0

replace github.com/scottyw/tetromino => /repo
