#!/bin/bash
# run every claimed check's quick command on the unchanged tree (regenerates /verif/evidence); usage: tools/runall.sh [ids...]
cd /verif
ids="$@"
[ -z "$ids" ] && ids=$(python3 -c "import json; print(' '.join(c['property_id'] for c in json.load(open('MANIFEST.json'))['checks']))")
for p in $ids; do ./check $p --tier quick 2>&1 | grep -E "^(VIOLATION|KNOWN|CHECK|C[0-9]+:)" ; done
