#!/bin/bash
# regression guard for "fix:" commits: rebuild the headless runner against /repo and compare with baseline.json
# (a ROM that passed in the baseline must still pass). Not part of any check's verdict.
set -e
export GOFLAGS=-mod=mod GOPROXY=off GOSUMDB=off GOTOOLCHAIN=local
D=/verif/tools/romrunner
REPO=${1:-/repo}
BIN=/var/tmp/verif-romrunner-$$
bash $D/build.sh $REPO $BIN >/dev/null
OUT=/var/tmp/verif-romout-$$.json
$BIN -list $D/roms.txt -json $OUT -repo $REPO > /dev/null
python3 - $D/baseline.json $OUT <<'PY'
import json,sys
b=json.load(open(sys.argv[1])); n=json.load(open(sys.argv[2]))
reg=[k for k,v in b.items() if v=="PASS" and n.get(k)!="PASS"]
imp=[k for k,v in n.items() if v=="PASS" and b.get(k)!="PASS"]
print("pass now: %d (baseline %d); regressions: %s; newly passing: %s" % (sum(v=="PASS" for v in n.values()), sum(v=="PASS" for v in b.values()), reg, imp))
sys.exit(1 if reg else 0)
PY
rc=$?
rm -f $BIN $OUT
exit $rc
