#!/usr/bin/env python3
"""Regenerates the must-fail corpus selftest/mutants/*.patch from /repo's current HEAD (each is a small, compiling,
test-passing, property-breaking edit). Usage: selftest/make_mutants.py ; the table maps name -> (file, old, new, props)."""
import subprocess, os, sys, json
R = "/repo/"
M = [
 ("C01_ld_b_c_wrong_source", "gameboy/cpu/dispatch.go", "cpu.normal[0x41] = []func(){cpu.ldBC}", "cpu.normal[0x41] = []func(){cpu.ldBD}", ["C01"]),
 ("C01_popf_no_mask", "gameboy/cpu/instructions.go", "cpu.f = cpu.mapper.Read(cpu.sp) & 0xf0", "cpu.f = cpu.mapper.Read(cpu.sp)", ["C01"]),
 ("C02_push_bc_dropped_nop", "gameboy/cpu/dispatch.go", "cpu.normal[0xc5] = []func(){nop, nop, ", "cpu.normal[0xc5] = []func(){nop, ", ["C02", "C03"]),
 ("C02_ret_nz_wrong_flag", "gameboy/cpu/dispatch.go", "cpu.isFinishedEarlys[0xc0] = isFinishedEarly(cpu.zf, 2, 5)", "cpu.isFinishedEarlys[0xc0] = isFinishedEarly(cpu.nzf, 2, 5)", ["C02"]),
 ("C03_inc_hl_read_early", "gameboy/cpu/dispatch.go", "cpu.normal[0x34] = []func(){nop, cpu.ldMHL, cpu.incM}", "cpu.normal[0x34] = []func(){cpu.ldMHL, nop, cpu.incM}", ["C03"]),
 ("C03_ld_a_nn_read_early", "gameboy/cpu/dispatch.go", "cpu.normal[0xfa] = []func(){cpu.readParamA, cpu.readParamB, nop, cpu.ldAUX16}", "cpu.normal[0xfa] = []func(){cpu.readParamA, cpu.readParamB, cpu.ldAUX16, nop}", ["C03"]),
 ("C04_timer_dispatch_resets_serial", "gameboy/cpu/execution.go", "\t\t\tcpu.rst(0x0050)()\n\t\t\tcpu.interrupts.ResetTimer()", "\t\t\tcpu.rst(0x0050)()\n\t\t\tcpu.interrupts.ResetSerial()", ["C04"]),
 ("C04_dispatch_four_cycles", "gameboy/cpu/dispatch.go", "cpu.shortInterrupt = []func(){nop, nop, nop, nop, cpu.handleInterrupt}", "cpu.shortInterrupt = []func(){nop, nop, nop, cpu.handleInterrupt}", ["C04"]),
 ("C04_readif_no_high_bits", "gameboy/interrupts/interrupts.go", "ifr := uint8(0xe0)", "ifr := uint8(0x00)", ["C04"]),
 ("C04_ei_immediate", "gameboy/cpu/instructions.go", "\tcpu.eiPending = true\n}", "\tcpu.interrupts.Enable()\n}", ["C04"]),
 ("C05_halt_wake_no_extra_cycle", "gameboy/cpu/dispatch.go", "cpu.longInterrupt = []func(){nop, nop, nop, nop, nop, cpu.handleInterrupt}", "cpu.longInterrupt = []func(){nop, nop, nop, nop, cpu.handleInterrupt}", ["C05"]),
 ("C05_no_haltbug", "gameboy/cpu/instructions.go", "\t\tif !cpu.interrupts.Pending() {\n\t\t\tcpu.halted = true\n\t\t} else {\n\t\t\tcpu.haltbug = true\n\t\t}", "\t\tcpu.halted = true", ["C05"]),
 ("C08_mbc1_bank2_shift", "gameboy/memory/mbc1.go", "m.romBank1 = (m.bank1 | m.bank2<<5) % uint8(len(m.rom))", "m.romBank1 = (m.bank1 | m.bank2<<4) % uint8(len(m.rom))", ["C08"]),
 ("C08_mbc2_a8_wrong_bit", "gameboy/memory/mbc2.go", "if addr&0x0100 == 0 {", "if addr&0x0200 == 0 {", ["C08", "C09"]),
 ("C08_mbc5_no_modulo", "gameboy/memory/mbc5.go", "\t\tm.romBank = m.romBank&0xff00 + uint16(value)\n\t\tm.romBank %= uint16(len(m.rom))", "\t\tm.romBank = m.romBank&0xff00 + uint16(value)", ["C08", "C11"]),
 ("C09_ram_enable_0b", "gameboy/memory/mbc3.go", "m.ramEnabled = value&0x0f == 0x0a", "m.ramEnabled = value&0x0f == 0x0b", ["C09"]),
 ("C09_mbc1_rambank_ignores_mode", "gameboy/memory/mbc1.go", "\t\tif m.mode1 {\n\t\t\tm.ramBank = m.bank2 % uint8(len(m.ram))\n\t\t} else {\n\t\t\tm.ramBank = 0\n\t\t}", "\t\tm.ramBank = m.bank2 % uint8(len(m.ram))", ["C09"]),
 ("C10_seconds_61", "gameboy/memory/rtc.go", "if r.s == 60 {", "if r.s == 61 {", ["C10"]),
 ("C10_tick_period", "gameboy/memory/rtc.go", "if r.ticks == 1048576 {", "if r.ticks == 1048575 {", ["C10"]),
 ("C10_latch_ignores_low", "gameboy/memory/rtc.go", "\tif r.low {\n\t\tr.ls = r.s", "\tif true {\n\t\tr.ls = r.s", ["C10"]),
 ("C22_down_bits_swapped", "gameboy/controller/controller.go", "\t\t\tc.directionInput &^= 0x8\n\t\t\tc.directionInput |= 0x4 // Unpress up", "\t\t\tc.directionInput &^= 0x4\n\t\t\tc.directionInput |= 0x8 // Unpress up", ["C22"]),
 ("C23_sc_also_writes", "gameboy/serial/serial.go", "func (s *Serial) WriteSC(value uint8) {", "func (s *Serial) WriteSC(value uint8) {\n\tif s.writer != nil {\n\t\ts.writer.Write([]byte{value})\n\t}", ["C23"]),
 ("C25_shared_param_cache", "gameboy/cpu/cpu.go", "func (cpu *CPU) readParamA() {\n\tcpu.u8a = cpu.mapper.Read(cpu.pc)", "var lastParam uint8\n\nfunc (cpu *CPU) readParamA() {\n\tcpu.u8a = cpu.mapper.Read(cpu.pc)\n\tlastParam = cpu.u8a", ["C25"]),
]
EXTRA = os.path.join(os.path.dirname(os.path.abspath(__file__)), "extra_mutants.json")
if os.path.exists(EXTRA):
    for e in json.load(open(EXTRA)):
        M.append(tuple(e))
out = os.path.join(os.path.dirname(os.path.abspath(__file__)), "mutants")
os.makedirs(out, exist_ok=True)
assert subprocess.run(["git", "-C", "/repo", "diff", "--quiet"]).returncode == 0, "repo dirty"
index = {}
for name, f, old, new, props in M:
    s = open(R + f).read()
    if s.count(old) < 1:
        print("STALE", name)
        continue
    open(R + f, "w").write(s.replace(old, new, 1))
    d = subprocess.run(["git", "-C", "/repo", "diff"], capture_output=True, text=True).stdout
    subprocess.run(["git", "-C", "/repo", "checkout", "--", "."])
    open(os.path.join(out, name + ".patch"), "w").write(d)
    index[name] = props
json.dump(index, open(os.path.join(out, "index.json"), "w"), indent=1)
print("%d mutants" % len(index))
