#!/bin/bash
# must-fail corpus on private exports of /repo's HEAD (tools/mutant2.sh), N at a time: usage selftest/run2.sh [name-regex] [N]
cd /verif
PAT="${1:-.}"; N="${2:-3}"
python3 - "$PAT" <<'PY' > /var/tmp/verif-selftest-jobs.txt
import json,sys,re
idx=json.load(open('selftest/mutants/index.json'))
for name,props in sorted(idx.items()):
    if re.search(sys.argv[1],name): print("selftest/mutants/%s.patch %s" % (name," ".join(props)))
PY
xargs -P "$N" -L 1 tools/mutant2.sh < /var/tmp/verif-selftest-jobs.txt | tee /var/tmp/verif-selftest-out.txt
echo "selftest: $(grep -cE ' MISSED| BROKEN|does not' /var/tmp/verif-selftest-out.txt) problems of $(wc -l < /var/tmp/verif-selftest-jobs.txt) mutants"
