#!/usr/bin/env python3
"""Must-pass corpus: harmless refactors that must not raise any alarm (name -> file, old, new, props)."""
import subprocess, os, json
R = "/repo/"
B = [
 ("rename_locals_adc", "gameboy/cpu/instructions.go", "func (cpu *CPU) adc(u8 uint8) {\n\ta := cpu.a\n\tcpu.a += u8\n\thf := hc8(a, u8)\n\tcf := c8(a, u8)",
  "func (cpu *CPU) adc(u8 uint8) {\n\tbefore := cpu.a\n\tcpu.a += u8\n\thf := hc8(before, u8)\n\tcf := c8(before, u8)", ["C01"]),
 ("reorder_stores_writelcdc", "gameboy/ppu/registers.go", "\tppu.highWindowTileMap = value&0x40 > 0\n\tppu.windowEnabled = value&0x20 > 0",
  "\tppu.windowEnabled = value&0x20 > 0\n\tppu.highWindowTileMap = value&0x40 > 0", ["C13", "C06", "C17"]),
 ("inline_hc8_in_add", "gameboy/cpu/instructions.go", "\tcpu.setHf(hc8(a, u8))\n\tcpu.setCf(c8(a, u8))\n}\n\nfunc (cpu *CPU) addHLBC",
  "\tcpu.setHf(a&0x0f+u8&0x0f > 0x0f)\n\tcpu.setCf(c8(a, u8))\n}\n\nfunc (cpu *CPU) addHLBC", ["C01"]),
 ("shift_vs_divide_addhl", "gameboy/cpu/instructions.go", "\tnew := hl + u16\n\tcpu.h = uint8(new >> 8)", "\tnew := hl + u16\n\tcpu.h = uint8(new / 256)", ["C01"]),
 ("if_chain_mbc2_read", "gameboy/memory/mbc2.go", "func (m *mbc2) Read(addr uint16) uint8 {\n\tswitch {\n\tcase addr < 0x4000:\n\t\treturn m.rom[0][addr]\n\tcase addr < 0x8000:",
  "func (m *mbc2) Read(addr uint16) uint8 {\n\tif addr < 0x4000 {\n\t\treturn m.rom[0][addr]\n\t}\n\tswitch {\n\tcase addr < 0x8000:", ["C08", "C09", "C11"]),
 ("rename_helper_updatebanks", "gameboy/memory/mbc1.go", "updateBanks()", "refreshBanks()", ["C08", "C09", "C11"]),
 ("timer_reset_reordered", "gameboy/timer/timer.go", "\t\tif t.endCycleA != 0xffff {\n\t\t\tt.endCycleA -= t.counter\n\t\t}\n\t\tt.endCycleB -= t.counter",
  "\t\tt.endCycleB -= t.counter\n\t\tif t.endCycleA != 0xffff {\n\t\t\tt.endCycleA -= t.counter\n\t\t}", ["C12"]),
 ("extract_helper_from_mapper_read", "gameboy/memory/mapper.go", "\tcase addr < 0xe000:\n\t\treturn m.internalRAM[addr-0xc000]\n\tcase addr < 0xfe00:\n\t\treturn m.internalRAM[addr-0xe000]\n\tcase addr < 0xff00:\n\t\treturn m.oam.Read(addr)",
  "\tcase addr < 0xfe00:\n\t\treturn m.readWorkRAM(addr)\n\tcase addr < 0xff00:\n\t\treturn m.oam.Read(addr)", ["C06", "C07"]),
]
out = os.path.join(os.path.dirname(os.path.abspath(__file__)), "benign")
os.makedirs(out, exist_ok=True)
assert subprocess.run(["git", "-C", "/repo", "diff", "--quiet"]).returncode == 0, "repo dirty"
index = {}
# hand-made patches (multi-file edits, appended helpers) are kept: see benign/index.json entries without a row in B
try:
    for k, v in json.load(open(os.path.join(out, "index.json"))).items():
        if k not in {b[0] for b in B} and os.path.exists(os.path.join(out, k + ".patch")):
            index[k] = v
except (OSError, ValueError):
    pass
for name, f, old, new, props in B:
    s = open(R + f).read()
    if name == "rename_helper_updatebanks":
        s2 = s.replace(old, new)
    else:
        if s.count(old) < 1:
            print("STALE", name)
            continue
        s2 = s.replace(old, new, 1)
    if name == "extract_helper_from_mapper_read":
        s2 += "\nfunc (m *Mapper) readWorkRAM(addr uint16) byte {\n\tif addr < 0xe000 {\n\t\treturn m.internalRAM[addr-0xc000]\n\t}\n\treturn m.internalRAM[addr-0xe000]\n}\n"
    open(R + f, "w").write(s2)
    d = subprocess.run(["git", "-C", "/repo", "diff"], capture_output=True, text=True).stdout
    subprocess.run(["git", "-C", "/repo", "checkout", "--", "."])
    open(os.path.join(out, name + ".patch"), "w").write(d)
    index[name] = props
json.dump(index, open(os.path.join(out, "index.json"), "w"), indent=1)
print("%d benign patches" % len(index))
