#!/bin/bash
# must-pass corpus on private exports (tools/mutant2.sh), N at a time: usage selftest/run_benign2.sh [name-regex] [N]
cd /verif
PAT="${1:-.}"; N="${2:-3}"
python3 - "$PAT" <<'PY' > /var/tmp/verif-benign-jobs.txt
import json,sys,re
idx=json.load(open('selftest/benign/index.json'))
for name,props in sorted(idx.items()):
    if re.search(sys.argv[1],name): print("selftest/benign/%s.patch %s" % (name," ".join(props)))
PY
xargs -P "$N" -L 1 tools/mutant2.sh < /var/tmp/verif-benign-jobs.txt | sed 's/ MISSED$/ QUIET (as required)/' | tee /var/tmp/verif-benign-out.txt
echo "benign: $(grep -vc 'QUIET (as required)' /var/tmp/verif-benign-out.txt) problems of $(wc -l < /var/tmp/verif-benign-jobs.txt) patches"
