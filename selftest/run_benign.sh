#!/bin/bash
# must-pass corpus: no check may raise an alarm on a harmless refactor. usage: selftest/run_benign.sh [name-regex]
cd /verif
python3 - "$1" <<'PY'
import json,subprocess,sys,re
idx=json.load(open('selftest/benign/index.json'))
pat=sys.argv[1] if len(sys.argv)>1 and sys.argv[1] else '.'
bad=0
for name,props in sorted(idx.items()):
    if not re.search(pat,name): continue
    r=subprocess.run(['tools/mutant.sh','selftest/benign/%s.patch'%name]+props,capture_output=True,text=True)
    for l in r.stdout.splitlines():
        ok=' MISSED' in l
        print(l.replace(' MISSED',' QUIET (as required)') if ok else 'FALSE-ALARM? '+l)
        if not ok: bad+=1
print("benign: %d problems" % bad)
PY
