#!/bin/bash
# must-fail corpus: every mutant must be DETECTED by each property it is registered for. usage: selftest/run.sh [name-regex]
cd /verif
python3 - "$1" <<'PY'
import json,subprocess,sys,re
idx=json.load(open('selftest/mutants/index.json'))
pat=sys.argv[1] if len(sys.argv)>1 and sys.argv[1] else '.'
bad=0
for name,props in sorted(idx.items()):
    if not re.search(pat,name): continue
    r=subprocess.run(['tools/mutant.sh','selftest/mutants/%s.patch'%name]+props,capture_output=True,text=True)
    for l in r.stdout.splitlines():
        print(l)
        if ' MISSED' in l or ' BROKEN' in l or 'does not' in l: bad+=1
print("selftest: %d problems" % bad)
PY
